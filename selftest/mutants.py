"""Hand-made and survey mutants (DESIGN.md 7). Each entry: name, properties expected to alarm
(empty = the change breaks no listed property: every check must stay silent), file, old, new."""

I = "chartparse/instrument.py"
S = "chartparse/sync.py"
T = "chartparse/track.py"
C = "chartparse/chart.py"
K = "chartparse/tick.py"
M = "chartparse/metadata.py"
G = "chartparse/globalevents.py"

POSITIVE = [
    # --- C01 ---------------------------------------------------------------------------------
    ("tempo-builder-first-event-as-base", ["C01"], T, "            prev_event = events[-1] if events else None\n            events.append(BPMEvent.from_parsed_data", "            prev_event = events[-0] if events else None\n            events.append(BPMEvent.from_parsed_data"),
    ("default-hint-1", ["C01", "C11"], S, "self, tick: Tick, *, start_iteration_index: int = 0\n", "self, tick: Tick, *, start_iteration_index: int = 1\n"),
    ("resolution-hardwired", ["C01", "C04"], C, "            metadata.resolution, data_sections[SyncTrack.header_tag]", "            192, data_sections[SyncTrack.header_tag]"),
    ("seconds-truncated", ["C01"], "chartparse/time.py", "other_as_timedelta = timedelta(seconds=other)", "other_as_timedelta = timedelta(microseconds=int(other * 1000000))"),
    # --- C02 / C03 ---------------------------------------------------------------------------
    ("chord-capped-3-lines", ["C02", "C03"], I, "                datas[left:right],", "                datas[left : min(right, left + 3)],"),
    ("orange-length-dropped", ["C03"], I, "return NoteTrackIndex.G.value <= self.value <= NoteTrackIndex.O.value", "return NoteTrackIndex.G.value <= self.value < NoteTrackIndex.O.value"),
    ("uniform-test-first-three", ["C03"], I, "    if all(d is None or d == first_non_none_sustain for d in sustain_tuple):", "    if all(d is None or d == first_non_none_sustain for d in sustain_tuple[:3]):"),
    ("last-note-end-is-last-note", ["C03", "C16"], I, "        return max(self.note_events, key=lambda e: e.end_timestamp).end_timestamp", "        return self.note_events[-1].end_timestamp"),
    ("longest-is-min", ["C03"], I, "        return max(s for s in sustain if s is not None)", "        return min(s for s in sustain if s is not None)"),
    # --- C04 ---------------------------------------------------------------------------------
    ("threshold-truncated", ["C04"], K, "    return Ticks(round(resolution / note_duration.value))", "    return Ticks(int(resolution / note_duration.value))"),
    ("flags-sliced-off-5-lane-chord", ["C04"], I, "        is_tap = any(d.note_track_index == NoteTrackIndex.TAP for d in datas)\n        is_forced = any(d.note_track_index == NoteTrackIndex.FORCED for d in datas)", "        is_tap = any(d.note_track_index == NoteTrackIndex.TAP for d in datas[:5])\n        is_forced = any(d.note_track_index == NoteTrackIndex.FORCED for d in datas[:5])"),
    ("resolution-1-rejected", ["C04"], K, "    if resolution <= 0:\n        raise ValueError(f\"resolution {resolution} must be positive\")", "    if resolution <= 1:\n        raise ValueError(f\"resolution {resolution} must be positive\")"),
    # --- C05 ---------------------------------------------------------------------------------
    ("sp-cursor-skips-upcoming-phrase", ["C05"], I, "        if not candidate.tick_is_during_event(tick):\n            return None, candidate_index", "        if not candidate.tick_is_during_event(tick):\n            return None, min(candidate_index + 1, len(star_power_events) - 1)"),
    ("sp-end-inclusive", ["C05"], I, "        return tick >= self.end_tick", "        return tick > self.end_tick"),
    # --- C06 / C13 ---------------------------------------------------------------------------
    ("header-table-misses-medium", ["C06"], C, "for i, d in itertools.product(Instrument, Difficulty)}", "for i, d in itertools.product(Instrument, Difficulty) if d is not Difficulty.MEDIUM or i is Instrument.GUITAR}"),
    ("want-tracks-break", ["C13"], C, "                if want_tracks is not None and instrument_difficulty_pair not in want_tracks:\n                    continue", "                if want_tracks is not None and instrument_difficulty_pair not in want_tracks:\n                    break"),
    ("events-parser-fed-sync-lines", ["C06", "C09"], C, "            data_sections[GlobalEventsTrack.header_tag], sync_track.bpm_events", "            data_sections[SyncTrack.header_tag], sync_track.bpm_events"),
    ("body-window-one-too-wide", ["C06"], C, "                    lines, curr_first_line_index, curr_last_line_index + 1\n", "                    lines, curr_first_line_index, curr_last_line_index + 2\n"),
    # --- C07 / C08 / C09 / C10 / C14 -----------------------------------------------------------
    ("track-event-tick-one-digit", ["C07"], I, 'r"^\\s*?(\\d+?) = E ([^ ]*?)\\s*?$"', 'r"^\\s*?(\\d) = E ([^ ]*?)\\s*?$"'),
    ("N-trailing-blank-lost", ["C07"], I, 'r"^\\s*?(\\d+?) = N ([0-7]) (\\d+?)\\s*?$"', 'r"^\\s*?(\\d+?) = N ([0-7]) (\\d+?)$"'),
    ("E-two-words", ["C07"], I, 'r"^\\s*?(\\d+?) = E ([^ ]*?)\\s*?$"', 'r"^\\s*?(\\d+?) = E (.*?)\\s*?$"'),
    ("N-index-any-digit", ["C14"], I, 'r"^\\s*?(\\d+?) = N ([0-7]) (\\d+?)\\s*?$"', 'r"^\\s*?(\\d+?) = N (\\d) (\\d+?)\\s*?$"'),
    ("TS-default-denominator-3", ["C08"], S, "    _default_lower_numeral: typ.ClassVar[int] = 4", "    _default_lower_numeral: typ.ClassVar[int] = 3"),
    ("bpm-rounded-2", ["C08"], S, "        bpm = int(data.raw_bpm) / 1000", "        bpm = round(int(data.raw_bpm) / 1000, 2)"),
    ("TS-dollar-lost", ["C08"], S, 'r"^\\s*?(\\d+?) = TS (\\d+?)(?: (\\d+?))?\\s*?$"', 'r"^\\s*?(\\d+?) = TS (\\d+?)(?: (\\d+?))?\\s*?"'),
    ("bpm-at-most-1-rejected", ["C08"], K, "    if bpm <= 0:\n        raise ValueError(f\"bpm {bpm} must be positive\")", "    if bpm <= 1:\n        raise ValueError(f\"bpm {bpm} must be positive\")"),
    ("text-kind-first", ["C09"], G, "            (LyricEvent.ParsedData, SectionEvent.ParsedData, TextEvent.ParsedData),", "            (TextEvent.ParsedData, LyricEvent.ParsedData, SectionEvent.ParsedData),"),
    ("dispatcher-continue", ["C09", "C14"], T, "            m[t].append(data)\n            break", "            m[t].append(data)\n            continue"),
    ("default-offset-1", ["C10"], M, "    offset: int = 0\n", "    offset: int = 1\n"),
    ("charter-not-read", ["C10"], M, '        maybe_set_kwarg("charter")\n', ""),
    ("warning-dropped", ["C14"], T, "            logger.warning(_unparsable_line_msg_tmpl.format(line, [t.__qualname__ for t in types]))", "            pass"),
    # --- C11 / C15 -----------------------------------------------------------------------------
    ("hint-start-check-removed", ["C11"], S, "        if first_event.tick > tick:\n            raise ValueError(", "        if False and first_event.tick > tick:\n            raise ValueError("),
    ("scan-starts-after-hint", ["C11"], S, "        for index in range(start_iteration_index, index_of_last_event):", "        for index in range(start_iteration_index + 1, index_of_last_event):"),
    ("tempo-order-non-strict", ["C15"], S, "            if data.tick <= prev_event.tick:", "            if data.tick < prev_event.tick:"),
    ("first-ts-tick-unchecked", ["C15"], S, "        if self.time_signature_events[0].tick != 0:", "        if self.time_signature_events[0].tick < 0:"),
    # --- C16 -----------------------------------------------------------------------------------
    ("nps-half-open-end", ["C16"], C, "            return start_time <= note.timestamp <= end_time", "            return start_time <= note.timestamp < end_time"),
    # --- C18 / C19 -----------------------------------------------------------------------------
    ("partition-index-unbound", ["C18"], C, "        curr_first_line_index = None\n        curr_last_line_index = None\n        for i, line", "        curr_last_line_index = None\n        for i, line"),
    ("nps-caches-track-on-chart", ["C19"], C, "        if not track.note_events:\n            raise ValueError(\"notes per second undefined for track with no notes\")", "        self._last_track = track\n        if not track.note_events:\n            raise ValueError(\"notes per second undefined for track with no notes\")"),
]

# changes that break no listed property: every check must stay silent
NEGATIVE = [
    ("generic-builder-first-event-hint", T, "            prev_event = events[-1] if events else None\n            events.append(event_type.from_parsed_data", "            prev_event = events[-0] if events else None\n            events.append(event_type.from_parsed_data"),
    ("B-trailing-blank-lost", S, 'r"^\\s*?(\\d+?) = B (\\d+?)\\s*?$"', 'r"^\\s*?(\\d+?) = B (\\d+?)$"'),
    ("TS-trailing-blank-lost", S, 'r"^\\s*?(\\d+?) = TS (\\d+?)(?: (\\d+?))?\\s*?$"', 'r"^\\s*?(\\d+?) = TS (\\d+?)(?: (\\d+?))?$"'),
    ("global-event-trailing-blank-lost", G, '_regex_template: typ.Final[str] = r"^\\s*?(\\d+?) = E \\"{}\\"\\s*?$"', '_regex_template: typ.Final[str] = r"^\\s*?(\\d+?) = E \\"{}\\"$"'),
    ("song-trailing-blank-lost", M, 'return rf"^\\s*?{field_name} = \\"?({value_regex})\\"?\\s*?$"', 'return rf"^\\s*?{field_name} = \\"?({value_regex})\\"?$"'),
    ("required-sections-also-logged", C, "            elif header_tag not in cls._required_header_tags:\n                logger.warning", "            else:\n                logger.warning"),
    ("note-tempo-cursor-never-advanced", I, "            event, proximal_bpm_event_index, star_power_event_index = NoteEvent.from_parsed_data(", "            event, _unused_index, star_power_event_index = NoteEvent.from_parsed_data("),
    ("sp-cursor-not-threaded", I, "                star_power_event_index=star_power_event_index,\n            )\n            events.append(event)", "                star_power_event_index=0,\n            )\n            events.append(event)"),
    ("event-str-format", "chartparse/event.py", 'to_join = [f"{type(self).__name__}(t@{self.tick:07})"]', 'to_join = [f"{type(self).__name__}(tick {self.tick})"]'),
    ("per-section-indices-not-reset", C, "                curr_header_tag = None\n                curr_first_line_index = None\n                curr_last_line_index = None\n        return d", "                curr_header_tag = None\n        return d"),
]
