#!/usr/bin/env python3
"""Self-test: apply each mutant of mutants.py to a scratch copy of /repo, run the baseline suite
(must be unchanged: 251 passed, 1 known failure), run the quick checks of the expected properties
(positive: exit 1 + VIOLATION; negative: every check exits 0). Writes selftest/RESULTS.md.
usage: run.py [--only name-substring] [--neg-all] [--seeds 0,1,2]"""
import argparse, os, shutil, subprocess, sys, tempfile, time

HERE = os.path.dirname(os.path.abspath(__file__))
sys.path.insert(0, HERE)
import mutants  # noqa: E402

ALL = ["C%02d" % i for i in range(1, 21)]
ap = argparse.ArgumentParser()
ap.add_argument("--only", default="")
ap.add_argument("--seeds", default="0")
ap.add_argument("--skip-neg", action="store_true")
ap.add_argument("--skip-pos", action="store_true")
a = ap.parse_args()
seeds = a.seeds.split(",")


def scratch(f, old, new):
    d = tempfile.mkdtemp(prefix="selftest_")
    subprocess.check_call(["cp", "-r", "/repo/.", d])
    p = os.path.join(d, f)
    s = open(p).read()
    if s.count(old) != 1:
        shutil.rmtree(d)
        raise SystemExit("pattern occurs %d times in %s: %r" % (s.count(old), f, old[:60]))
    open(p, "w").write(s.replace(old, new))
    return d


def tests(d):
    r = subprocess.run(["/venv/bin/python", "-m", "pytest", "-q", "-p", "no:cacheprovider", "--timeout=900"], cwd=d, capture_output=True, text=True)
    last = r.stdout.strip().splitlines()[-1]
    return ("251 passed" in last and "1 failed" in last), last


def check(d, pid, seed):
    env = dict(os.environ, VERIF_REPO=d, VERIF_SEED=seed, VERIF_EVIDENCE_DIR=os.path.join(d, ".evidence"), VERIF_REPLAY_DIR="/tmp/verif_replays")
    r = subprocess.run(["/verif/check", pid, "--tier", "quick"], env=env, capture_output=True, text=True)
    v = [l for l in r.stdout.splitlines() if l.startswith("violation:")]
    if r.returncode == 1 and not any(l.startswith("VIOLATION property=") for l in r.stdout.splitlines()):
        r.returncode = 2  # a crash of the check itself is never a detection
    return r.returncode, (v[0][:160] if v else (r.stderr.strip().splitlines()[-1][:160] if r.returncode == 2 and r.stderr.strip() else ""))


rows = []
t0 = time.time()
if not a.skip_pos:
    for name, props, f, old, new in mutants.POSITIVE:
        if a.only not in name:
            continue
        d = scratch(f, old, new)
        try:
            ok, last = tests(d)
            res = []
            for pid in props:
                for seed in seeds:
                    rc, msg = check(d, pid, seed)
                    res.append((pid, seed, rc, msg))
            verdict = "CAUGHT" if all(rc == 1 for _, _, rc, _ in res) else "MISSED/PARTIAL"
            rows.append(("positive", name, "survives tests" if ok else "killed by tests (%s)" % last, verdict, "; ".join("%s[seed %s] rc=%d %s" % r for r in res)))
            print(rows[-1], flush=True)
        finally:
            shutil.rmtree(d, ignore_errors=True)
if not a.skip_neg:
    for name, f, old, new in mutants.NEGATIVE:
        if a.only not in name:
            continue
        d = scratch(f, old, new)
        try:
            ok, last = tests(d)
            res = []
            for pid in ALL:
                rc, msg = check(d, pid, seeds[0])
                if rc != 0:
                    res.append((pid, seeds[0], rc, msg))
            rows.append(("negative", name, "survives tests" if ok else "killed by tests (%s)" % last, "SILENT" if not res else "FALSE ALARM", "; ".join("%s[seed %s] rc=%d %s" % r for r in res)))
            print(rows[-1], flush=True)
        finally:
            shutil.rmtree(d, ignore_errors=True)
subprocess.call(["git", "-C", "/verif", "checkout", "--", "evidence"], stderr=subprocess.DEVNULL)
if not a.only:
    with open(os.path.join(HERE, "RESULTS.md"), "w") as f:
        f.write("# Self-test results (selftest/run.py, quick tier, seeds %s)\n\n" % a.seeds)
        f.write("| kind | mutant | baseline suite | verdict | detail |\n|---|---|---|---|---|\n")
        for r in rows:
            f.write("| %s | %s | %s | **%s** | %s |\n" % tuple(x.replace("|", "\\|") for x in r))
        f.write("\n%d mutants, %.0f s\n" % (len(rows), time.time() - t0))
print("done")
