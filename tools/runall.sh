#!/bin/sh
# runs every check (tier $1, default quick) and validates evidence + manifest
cd /verif || exit 2
tier=${1:-quick}
rc=0
for i in 01 02 03 04 05 06 07 08 09 10 11 12 13 14 15 16 17 18 19 20; do
  ./check C$i --tier $tier > /tmp/runall_C$i.log 2>&1; r=$?
  tail -1 /tmp/runall_C$i.log | sed "s/^/rc=$r /"
  [ $r -ne 0 ] && rc=1
done
python3-vt - <<'PY'
import json, jsonschema, glob
s=json.load(open('/root/.vp/EVIDENCE.schema.json'))
for f in sorted(glob.glob('/verif/evidence/*.json')):
    jsonschema.validate(json.load(open(f)),s)
jsonschema.validate(json.load(open('/verif/MANIFEST.json')), json.load(open('/root/.vp/MANIFEST.schema.json')))
print('evidence + manifest valid:', len(glob.glob('/verif/evidence/*.json')))
PY
exit $rc
