#!/usr/bin/env python3
"""Apply one change to a scratch copy of /repo and run checks against it.

usage: mutcheck.py [--tests] [--tier quick] (--patch file.diff | --sub FILE 'old' 'new') -- C02 C03 ...
The scratch copy lives under /tmp and is removed afterwards. Evidence written by these runs is
discarded (the evidence directory is restored from git afterwards)."""
import argparse, os, shutil, subprocess, sys, tempfile

ap = argparse.ArgumentParser()
ap.add_argument("--tests", action="store_true")
ap.add_argument("--tier", default="quick")
ap.add_argument("--patch")
ap.add_argument("--sub", nargs=3, action="append", default=[])
ap.add_argument("--seed", default="0")
ap.add_argument("props", nargs="*")
a = ap.parse_args()
d = tempfile.mkdtemp(prefix="mut_")
try:
    subprocess.check_call(["cp", "-r", "/repo/.", d])
    if a.patch:
        subprocess.check_call(["git", "-C", d, "apply", os.path.abspath(a.patch)])
    for f, old, new in a.sub:
        p = os.path.join(d, f)
        s = open(p).read()
        if s.count(old) != 1:
            sys.exit("pattern occurs %d times in %s" % (s.count(old), f))
        open(p, "w").write(s.replace(old, new))
    print(subprocess.run(["git", "-C", d, "diff", "--stat"], capture_output=True, text=True).stdout.strip())
    if a.tests:
        r = subprocess.run(["/venv/bin/python", "-m", "pytest", "-q", "-p", "no:cacheprovider", "--timeout=900"], cwd=d, capture_output=True, text=True)
        print("TESTS:", r.stdout.strip().splitlines()[-1])
    for p in a.props:
        env = dict(os.environ, VERIF_REPO=d, VERIF_SEED=a.seed, VERIF_EVIDENCE_DIR=os.path.join(d, ".evidence"), VERIF_REPLAY_DIR="/tmp/verif_replays")
        r = subprocess.run(["/verif/check", p, "--tier", a.tier], env=env, capture_output=True, text=True)
        lines = [l for l in r.stdout.splitlines() if l.startswith(("VIOLATION", "violation:", "KNOWN"))][:3]
        print("%s rc=%d %s" % (p, r.returncode, " | ".join(l[:230] for l in lines)))
        if r.returncode == 2 or (r.returncode == 1 and not any(l.startswith("VIOLATION property=") for l in r.stdout.splitlines())):
            print("HARNESS FAULT (not a detection):", r.stderr[-1500:])
finally:
    shutil.rmtree(d, ignore_errors=True)
    subprocess.call(["git", "-C", "/verif", "checkout", "--", "evidence"], stderr=subprocess.DEVNULL)
