#!/usr/bin/env python3
"""Fills the seeded-changes table of DESIGN.md (between the SEEDTABLE markers) from seeded/*/meta.json."""
import glob, json, os, re
rows = []
for d in sorted(glob.glob("/verif/seeded/*")):
    if not os.path.isdir(d):
        continue
    m = json.load(open(os.path.join(d, "meta.json")))
    at = "caught" if m.get("target_check_caught_at_intake") else ("missed" + (" (caught by %s)" % ", ".join(m["caught_at_intake"]) if m.get("caught_at_intake") else ""))
    rows.append("| %s | %s | %s | %s | %s |" % (m["id"], m["needs"].replace("|", "/"), at, ", ".join(m.get("caught_by", [])) or "**none**", m.get("strengthening", "-").replace("|", "/")))
p = "/verif/DESIGN.md"
s = open(p).read()
block = "<!-- SEEDTABLE -->\n" + "\n".join(rows) + "\n<!-- /SEEDTABLE -->"
if "@@SEEDROWS@@" in s:
    s = s.replace("@@SEEDROWS@@", block)
else:
    s = re.sub(r"<!-- SEEDTABLE -->.*?<!-- /SEEDTABLE -->", lambda _: block, s, flags=re.S)
open(p, "w").write(s)
print(len(rows), "rows")
