#!/usr/bin/env python3
"""Take over a seeded change made by a sub-agent in a scratch worktree.

usage: intake.py <worktree> <seed-id> --breaks Cxx [--needs "..."] [--checks C01 C02 ...] [--tier quick]
Confirms independently (fresh scratch copy of /repo HEAD): patch applies, baseline suite unchanged
(251 passed + the 1 known failure), demo exits 1 with the change and 0 without. Then runs the listed
checks against the changed copy and stores /verif/seeded/<seed-id>/{patch.diff,demo.py,meta.json}."""
import argparse, json, os, re, shutil, subprocess, sys, tempfile, time

ap = argparse.ArgumentParser()
ap.add_argument("wt")
ap.add_argument("sid")
ap.add_argument("--breaks", required=True)
ap.add_argument("--needs", default="")
ap.add_argument("--checks", nargs="*", default=None)
ap.add_argument("--tier", default="quick")
ap.add_argument("--force", action="store_true")
a = ap.parse_args()
checks = a.checks if a.checks is not None else [a.breaks]

patch = subprocess.run(["git", "-C", a.wt, "diff"], capture_output=True, text=True).stdout
if not patch.strip():
    sys.exit("empty diff in %s" % a.wt)
demo_src = open(os.path.join(a.wt, "demo.py")).read()
wt = a.wt.rstrip("/")
PLACE = '(__import__("os").environ.get("CHARTPARSE_REPO") or "/repo")'
demo_generic = re.sub(r'(["\'])%s/?\1' % re.escape(wt), PLACE, demo_src)
demo_generic = demo_generic.replace(wt, "/repo")  # remaining mentions (comments, f-strings)

def run_demo(repo):
    with tempfile.NamedTemporaryFile("w", suffix="_demo.py", delete=False) as f:
        f.write(demo_generic)
    try:
        r = subprocess.run(["/venv/bin/python", f.name], env=dict(os.environ, CHARTPARSE_REPO=repo), capture_output=True, text=True, timeout=900)
        return r.returncode, (r.stdout + r.stderr)[-600:]
    finally:
        os.unlink(f.name)

mut = tempfile.mkdtemp(prefix="seed_mut_")
clean = tempfile.mkdtemp(prefix="seed_clean_")
meta = dict(id=a.sid, breaks=a.breaks, needs=a.needs, source_worktree=a.wt, intake_time=time.strftime("%Y-%m-%d %H:%M:%S"))
try:
    for d in (mut, clean):
        subprocess.check_call(["cp", "-r", "/repo/.", d])
        subprocess.check_call(["git", "-C", d, "checkout", "-q", "--", "."])
    pf = os.path.join(mut, "_seed.diff")
    open(pf, "w").write(patch)
    subprocess.check_call(["git", "-C", mut, "apply", pf])
    os.unlink(pf)
    r = subprocess.run(["/venv/bin/python", "-m", "pytest", "-q", "-p", "no:cacheprovider", "--timeout=900"], cwd=mut, capture_output=True, text=True)
    last = r.stdout.strip().splitlines()[-1]
    meta["baseline_with_change"] = last
    ok_tests = "251 passed" in last and "1 failed" in last
    rc_mut, out_mut = run_demo(mut)
    rc_clean, out_clean = run_demo(clean)
    meta["demo_exit_with_change"], meta["demo_exit_without_change"] = rc_mut, rc_clean
    meta["demo_output_with_change"] = out_mut[-400:]
    print("tests:", last, "| demo with change rc=%d, without rc=%d" % (rc_mut, rc_clean))
    confirmed = ok_tests and rc_mut == 1 and rc_clean == 0
    meta["confirmed"] = confirmed
    if not confirmed and not a.force:
        print("NOT CONFIRMED:", out_mut[-300:], "|", out_clean[-300:])
        sys.exit(1)
    res = {}
    for pid in checks:
        env = dict(os.environ, VERIF_REPO=mut, VERIF_EVIDENCE_DIR=os.path.join(mut, ".evidence"), VERIF_REPLAY_DIR="/tmp/verif_replays")
        t = time.time()
        r = subprocess.run([os.environ.get("VERIF_CHECK_CMD", "/verif/check"), pid, "--tier", a.tier], env=env, capture_output=True, text=True)
        v = [l for l in r.stdout.splitlines() if l.startswith("violation:")]
        if r.returncode == 1 and not any(l.startswith("VIOLATION property=") for l in r.stdout.splitlines()):
            r.returncode = 2  # a crash of the check itself is a harness fault, never a detection
        res[pid] = dict(tier=a.tier, exit=r.returncode, first_violation=(v[0][:300] if v else ""), wall_s=round(time.time() - t, 1))
        print(pid, "rc=%d" % r.returncode, (v[0][:200] if v else r.stderr[-300:] if r.returncode == 2 else ""))
    meta["checks"] = res
    meta["caught_by"] = sorted(p for p, x in res.items() if x["exit"] == 1)
    meta["caught_at_intake"] = list(meta["caught_by"])
    meta["target_check_caught_at_intake"] = a.breaks in meta["caught_by"]
    meta["what_was_run"] = "fresh copy of /repo HEAD + patch: baseline suite; demo.py with and without the change; ./check <id> --tier %s with VERIF_REPO=<copy> for %s" % (a.tier, " ".join(checks))
    out = os.path.join("/verif/seeded", a.sid)
    os.makedirs(out, exist_ok=True)
    open(os.path.join(out, "patch.diff"), "w").write(patch)
    open(os.path.join(out, "demo.py"), "w").write("# exits 1 when the property is violated, 0 when it holds; repository under test: $CHARTPARSE_REPO (default /repo)\n" + demo_generic)
    json.dump(meta, open(os.path.join(out, "meta.json"), "w"), indent=1)
    print("stored", out, "caught_by", meta["caught_by"])
finally:
    shutil.rmtree(mut, ignore_errors=True)
    shutil.rmtree(clean, ignore_errors=True)
