#!/usr/bin/env python3
"""Re-run checks against the seeded changes in /verif/seeded/*/patch.diff (scratch copies of /repo).
usage: reseed.py [--tier quick] [--all-checks] [--note text] [seed ids...]   Updates meta.json."""
import argparse, glob, json, os, shutil, subprocess, sys, tempfile, time

ap = argparse.ArgumentParser()
ap.add_argument("--tier", default="quick")
ap.add_argument("--all-checks", action="store_true")
ap.add_argument("--note", default="")
ap.add_argument("ids", nargs="*")
a = ap.parse_args()
ids = a.ids or sorted(os.path.basename(d) for d in glob.glob("/verif/seeded/*") if os.path.isdir(d))
for sid in ids:
    d = os.path.join("/verif/seeded", sid)
    meta = json.load(open(os.path.join(d, "meta.json")))
    mut = tempfile.mkdtemp(prefix="reseed_")
    try:
        subprocess.check_call(["cp", "-r", "/repo/.", mut])
        subprocess.check_call(["git", "-C", mut, "checkout", "-q", "--", "."])
        subprocess.check_call(["git", "-C", mut, "apply", os.path.join(d, "patch.diff")])
        r = subprocess.run(["/venv/bin/python", os.path.join(d, "demo.py")], env=dict(os.environ, CHARTPARSE_REPO=mut), capture_output=True, text=True)
        demo_rc = r.returncode
        props = ["C%02d" % i for i in range(1, 21)] if a.all_checks else sorted(set([meta["breaks"]] + list(meta.get("checks", {}))))
        res = meta.setdefault("checks", {})
        for pid in props:
            env = dict(os.environ, VERIF_REPO=mut, VERIF_EVIDENCE_DIR=os.path.join(mut, ".evidence"), VERIF_REPLAY_DIR="/tmp/verif_replays")
            t = time.time()
            r = subprocess.run([os.environ.get("VERIF_CHECK_CMD", "/verif/check"), pid, "--tier", a.tier], env=env, capture_output=True, text=True)
            v = [l for l in r.stdout.splitlines() if l.startswith("violation:")]
            if r.returncode == 1 and not any(l.startswith("VIOLATION property=") for l in r.stdout.splitlines()):
                r.returncode = 2  # a crash of the check itself is a harness fault, never a detection
            prev = res.get(pid)
            res[pid] = dict(tier=a.tier, exit=r.returncode, first_violation=(v[0][:300] if v else ""), wall_s=round(time.time() - t, 1))
            if prev and prev.get("exit") != r.returncode:
                meta.setdefault("history", []).append("%s: exit %s -> %s %s" % (pid, prev.get("exit"), r.returncode, a.note))
        meta["caught_by"] = sorted(p for p, x in res.items() if x["exit"] == 1)
        json.dump(meta, open(os.path.join(d, "meta.json"), "w"), indent=1)
        print(sid, "demo rc=%d" % demo_rc, "breaks", meta["breaks"], "caught_by", meta["caught_by"], "faults", [p for p, x in res.items() if x["exit"] == 2], flush=True)
    finally:
        shutil.rmtree(mut, ignore_errors=True)
