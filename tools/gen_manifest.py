#!/usr/bin/env python3
"""Regenerates /verif/MANIFEST.json from the table below (run after adding a check)."""
import json
import os

VERIF = os.path.dirname(os.path.dirname(os.path.abspath(__file__)))

BASELINE = (
    "cd /repo && /venv/bin/python -m pytest -ra -q -p no:cacheprovider --timeout=900 "
    "--continue-on-collection-errors"
)

# id -> (category, engine, technique, level text, level note, design ref)
CHECKS = {}


def add(pid, category, engine, technique, text, note, ref):
    CHECKS[pid] = (category, engine, technique, text, note, ref)


TRUST = (
    "Trusted: CPython 3.12, the harness (mc/core.py, mc/impl.py) and the reference model mc/refmodel.py "
    "(independent of the package, exact arithmetic). Residual: values outside the stated alphabets and depths "
    "(small-scope hypothesis)."
)

add(
    "C02",
    "model_checking",
    "E1",
    "bounded-exhaustive enumeration of instrument sections executed on the real parser vs reference model",
    "Stateless model checking of the implementation: every sequence of <= 3 (thorough 4) ticks over all 32 lane "
    "combinations x flags x gaps x lane-line orders x S/E interleavings is parsed by the real Chart.from_file and "
    "compared with the model; nothing is sampled.",
    TRUST,
    "DESIGN.md 4 C02",
)

PENDING = {}


def main():
    props = [json.loads(l) for l in open(os.path.join(VERIF, "properties.jsonl"))]
    checks = []
    na = []
    for p in props:
        pid = p["id"]
        if pid in CHECKS and os.path.exists(os.path.join(VERIF, "mc", "props", pid.lower() + ".py")):
            cat, eng, tech, text, note, ref = CHECKS[pid]
            checks.append(
                dict(
                    property_id=pid,
                    quick_cmd="./check %s --tier quick" % pid,
                    thorough_cmd="./check %s --tier thorough" % pid,
                    evidence_file="/verif/evidence/%s.json" % pid,
                    replay_cmd_template="./check %s --replay {path}" % pid,
                    engine=eng,
                    level_claimed=dict(category=cat, text=text, design_ref=ref),
                    level_note=note,
                    technique=tech,
                )
            )
        else:
            na.append(
                dict(
                    property_id=pid,
                    reason=PENDING.get(
                        pid, "not claimed yet: check designed (DESIGN.md section 4) but not built at this commit"
                    ),
                )
            )
    man = dict(
        version=1,
        setup_cmd="/venv/bin/python -c \"import sys; sys.path.insert(0, '/verif'); import mc.core, mc.impl, mc.refmodel\"",
        hooks=dict(
            guard="EMPTIERSET_CHARTPARSE_VERIF",
            enable="no hooks are needed: tracing, profiling and memo-table inspection are external (sys.settrace / sys.setprofile / gc)",
            baseline_off_cmd=BASELINE,
            source_commits=[],
            add_only=True,
        ),
        engines=[
            dict(name="E1", path="mc/e1.py", kind_free_text="bounded-exhaustive generation-tree explorer over inputs, executed on the real parser", serves_properties=[c["property_id"] for c in checks if "E1" in c["engine"]]),
            dict(name="E2", path="mc/hist.py", kind_free_text="explicit-state BFS over histories (operations, parses, imports, edits) of the real code", serves_properties=[c["property_id"] for c in checks if "E2" in c["engine"]]),
            dict(name="E3", path="mc/automata.py", kind_free_text="captured recognisers -> NFA, product-automaton reachability, witnesses replayed on the real line parsers", serves_properties=[c["property_id"] for c in checks if "E3" in c["engine"]]),
            dict(name="E4", path="mc/sched.py", kind_free_text="preemption-bounded schedule explorer for real threads (trace-function baton)", serves_properties=[c["property_id"] for c in checks if "E4" in c["engine"]]),
        ],
        checks=checks,
        notes="All checks: ./check <id> --tier quick|thorough; honours VERIF_SEED, VERIF_TIER, VERIF_REPO (default /repo). "
        "The package is imported straight from the working tree. See DESIGN.md.",
        not_applicable=na,
    )
    with open(os.path.join(VERIF, "MANIFEST.json"), "w") as f:
        json.dump(man, f, indent=1)
        f.write("\n")
    print("checks:", len(checks), "not claimed:", len(na))


if __name__ == "__main__":
    main()
