#!/usr/bin/env python3
"""Regenerates /verif/MANIFEST.json from the table below (run after adding a check)."""
import json
import os

VERIF = os.path.dirname(os.path.dirname(os.path.abspath(__file__)))

BASELINE = (
    "cd /repo && /venv/bin/python -m pytest -ra -q -p no:cacheprovider --timeout=900 "
    "--continue-on-collection-errors"
)

# id -> (category, engine, technique, level text, level note, design ref)
CHECKS = {}


def add(pid, category, engine, technique, text, note, ref):
    CHECKS[pid] = (category, engine, technique, text, note, ref)


TRUST = (
    "Trusted: CPython 3.12, the harness (mc/core.py, mc/impl.py) and the reference model mc/refmodel.py "
    "(independent of the package, exact arithmetic). Residual: values outside the stated alphabets and depths "
    "(small-scope hypothesis)."
)

add(
    "C02",
    "model_checking",
    "E1",
    "bounded-exhaustive enumeration of instrument sections executed on the real parser vs reference model",
    "Stateless model checking of the implementation: every sequence of <= 3 (thorough 4) ticks over all 32 lane "
    "combinations x flags x gaps x lane-line orders x S/E interleavings is parsed by the real Chart.from_file and "
    "compared with the model; nothing is sampled.",
    TRUST,
    "DESIGN.md 4 C02",
)


E1TECH = "bounded-exhaustive enumeration of inputs (stateless model checking of the implementation) against an exact reference model"


def e1(pid, what, ref=None):
    add(pid, "model_checking", "E1", E1TECH, "Stateless model checking of the implementation within stated bounds, nothing sampled: " + what, TRUST, ref or "DESIGN.md 4 " + pid)


e1("C01", "every tempo map of <= 3 (thorough 6) segments over a 12-value BPM alphabet (incl. 0.001 and 10^6) x 7 gaps x 9+3 resolutions; one chart per map with all 7 event kinds at every probe tick, plus direct queries; compared with exact rational time.")
e1("C03", "all 1023 lane/length patterns + open x flag lines x 4 contexts x 5-6 tempo maps x resolutions; sustain, longest, end tick, end time (vs un-hinted query) and last-note-end compared with the model.")
e1("C04", "the complete decision table (6 distance classes around the threshold x 1024 ordered lane pairs x 16 flag combinations) for 30 (thorough 408) resolutions, plus all one-note tracks.")
e1("C05", "every star-power list of <= 2 (thorough 3) phrases x every non-empty note-tick set in 0..8; membership index compared with the half-open first-cover rule.")
e1("C06", "all permutations of a rich 6 (thorough 7) section chart x LF/CRLF x 3 entry points (BOM), all 40 headers / 780 pairs / 1024 subsets, unknown sections at every position, all required-section subsets; whole observation vs reference model and warning-count differences.")
e1("C12", "every tempo map of <= 4 (thorough 5) segments over extreme BPMs (0.001 .. 10^6 and the strictness boundary) x 4 resolutions; EVERY tick queried, every adjacent pair and every cross-track pair compared.")
e1("C13", "all 64 file subsets x all 128 selections (+None, empty, tuple form) of a 6-header universe; body replacements (valid/empty/garbage/invalid) x selections; oracle: unrestricted parse of the same text.")
e1("C16", "every track of <= 4 (thorough 5) notes over 7 ticks x 2 sustain layouts x 3 tempo maps x every bound pair (ticks and timestamps, on / next to note times) in all five call forms; exact-fraction oracle.")
add("C11", "model_checking", "E1+E2", "exhaustive hint table + exhaustive enumeration of event histories (sequences of ticks in any order) on the real parser; un-hinted query as oracle", "Explicit enumeration of all histories: every sequence of <= 4 (thorough 5) ticks in ANY order for 9 event kinds on 3-5 tempo maps (states are the sequences, nothing merged) and the full (map, tick, hint) table; invariant evaluated on every state.", TRUST, "DESIGN.md 4 C11")
add("C14", "model_checking", "E1+E3", "exhaustive enumeration of garbage insertions executed on the real parser (differential) + product-automaton disjointness of the captured recognisers", "Every assignment of 0..2 unparsable lines to every insertion point of each section for every garbage line; observation must equal the base parse and warnings must grow by exactly the number of lines.", TRUST, "DESIGN.md 4 C14")
add("C15", "fault_enumeration", "E1", "exhaustive single-fault enumeration at every position, executed on the real parser, verdict predicted by the reference model", "Every single corruption of the sync data at every position on bases of 1..4 tempo events x event placements around every tempo tick x 8 event kinds; then every query tick.", TRUST, "DESIGN.md 4 C15")

E3TECH = "explicit-state reachability over the product automaton of the recognisers captured from the running parser and specification automata (strings of any length), every verdict replayed on the real line parsers / Chart.from_file; plus bounded-exhaustive token enumeration"
add("C07", "model_checking", "E3+E1", E3TECH, "Joint product of the captured N/S/E recognisers (captured trial order, first-match) with L_must/L_may automata decides L_must(K) <= claimed-as-K <= L_may(K) for all strings over a 99-character alphabet; translator validated against the compiled pattern objects on >3*10^5 strings; witnesses per product transition replayed on from_chart_line and end-to-end; token products and 2-3 line groups across tempo segments.", TRUST + " The automata are a model bound to the code by capture + string-by-string validation + replay.", "DESIGN.md 4 C07")
add("C08", "model_checking", "E1+E3", "exhaustive enumeration of EVERY tempo value 1..10^7 (thorough 5*10^7) through the real parser + TS/A grids + product automata of the captured B/TS/A recognisers", "Every n in 1..10^7 is written into packed sync sections, parsed by Chart.from_file and compared with the correctly rounded n/1000; TS/A value grids and sequences across tempo segments; sandwich products for the captured B/TS/A recognisers with witness replay.", TRUST, "DESIGN.md 4 C08")
add("C09", "model_checking", "E3+E1", E3TECH, "Product of the three captured [Events] recognisers with six specification automata: in every reachable configuration first-match(captured order) equals the specification class; witnesses replayed through a real [Events] section (value verbatim, exactly one list); all texts of length <= 4 (thorough 5) over a 6-character alphabet behind 6 prefixes; all orderings of <= 4 mixed lines.", TRUST, "DESIGN.md 4 C09")
add("C10", "model_checking", "E3+E1", E3TECH, "All 276 pairwise products of the 24 captured field recognisers (empty intersection for strings of any length), 24 inclusion products L_must(F) <= L(F) with witness replay through a real [Song] section; all subsets of <= 2 optional fields and complements x line orders; all values of length <= 3 (thorough 4) over a 5-character alphabet for each of the 18 string fields; adversarial values.", TRUST, "DESIGN.md 4 C10")
add("C19", "model_checking", "E2", "explicit-state exploration of read-only operation histories on live chart objects (all sequences to depth 2/3, un-merged), fingerprint + twin equality after every operation", "Every sequence of <= 2 (thorough 3) operations out of a 50-operation alphabet on 5 charts is executed on a fresh parse; after every operation the full public observation and equality with an untouched twin (both directions) must equal the initial state.", TRUST, "DESIGN.md 4 C19")
add("C20", "model_checking", "E2", "explicit-state BFS over import histories, one fresh interpreter per transition, states merged by module-table fingerprint; merging validated by un-merged pairs/triples/permutations", "BFS to a fixed point over 'import M' for the 13 modules in fresh interpreters (25 states / 325 transitions on the repaired tree); every transition must succeed and all states that load every module must coincide; all 156 ordered pairs (thorough: 1716 triples + 24 full permutations) executed un-merged and compared with the merged graph.", "Trusted: CPython import system semantics captured by sys.modules + namespaces; fresh interpreter = /venv/bin/python -I.", "DESIGN.md 4 C20")

add("C17", "model_checking", "E2+E4", "exhaustive enumeration of parse histories in forked pristine process images + iterative context bounding: ALL thread schedules of two concurrent parses up to a preemption bound under a cooperative trace-function scheduler", "Every sequence of <= 2 (thorough 3) parses over a 9-text corpus built to collide on the memo tables, each in a process forked from a pristine parent, compared with fresh-interpreter baselines; two real threads parsing concurrently under a scheduler that owns every context switch: every switch point at line granularity (thorough: opcode granularity, and 2 preemptions at call granularity) x cold/warm memo tables x both start orders; determinism self-check by replaying every 50th schedule.", "Trusted: CPython threading/settrace semantics; scheduling points in package frames only (stdlib treated as atomic); GIL makes single bytecodes atomic.", "DESIGN.md 4 C17")
add("C18", "model_checking", "E2+E1", "explicit-state BFS over the edit graph of chart texts (state = text) + exhaustive enumeration of fragment sequences, every text parsed and rendered by the real code", "BFS from 3 seed charts through every line edit to depth 2, every character edit (9-character alphabet) and character edit followed by line edit; every sequence of <= 4 (thorough 5) of 28 structural fragments; every body of <= 3 lines per section over 10-14 fragments in a complete skeleton, body pairs and extreme skeletons (about 9*10^5 texts quick).", TRUST, "DESIGN.md 4 C18")

PENDING = {}


def main():
    props = [json.loads(l) for l in open(os.path.join(VERIF, "properties.jsonl"))]
    checks = []
    na = []
    for p in props:
        pid = p["id"]
        if pid in CHECKS and os.path.exists(os.path.join(VERIF, "mc", "props", pid.lower() + ".py")):
            cat, eng, tech, text, note, ref = CHECKS[pid]
            checks.append(
                dict(
                    property_id=pid,
                    quick_cmd="./check %s --tier quick" % pid,
                    thorough_cmd="./check %s --tier thorough" % pid,
                    evidence_file="/verif/evidence/%s.json" % pid,
                    replay_cmd_template="./check %s --replay {path}" % pid,
                    engine=eng,
                    level_claimed=dict(category=cat, text=text, design_ref=ref),
                    level_note=note,
                    technique=tech,
                )
            )
        else:
            na.append(
                dict(
                    property_id=pid,
                    reason=PENDING.get(
                        pid, "not claimed yet: check designed (DESIGN.md section 4) but not built at this commit"
                    ),
                )
            )
    man = dict(
        version=1,
        setup_cmd="/venv/bin/python -c \"import sys; sys.path.insert(0, '/verif'); import mc.core, mc.impl, mc.refmodel\"",
        hooks=dict(
            guard="EMPTIERSET_CHARTPARSE_VERIF",
            enable="no hooks are needed: tracing, profiling and memo-table inspection are external (sys.settrace / sys.setprofile / gc)",
            baseline_off_cmd=BASELINE,
            source_commits=[],
            add_only=True,
        ),
        engines=[
            dict(name="E1", path="mc/e1.py", kind_free_text="bounded-exhaustive generation-tree explorer over inputs, executed on the real parser", serves_properties=[c["property_id"] for c in checks if "E1" in c["engine"]]),
            dict(name="E2", path="mc/props/ (c11, c17, c18, c19, c20; child mc/imp_child.py)", kind_free_text="explicit-state BFS over histories (operations, parses, imports, edits) of the real code", serves_properties=[c["property_id"] for c in checks if "E2" in c["engine"]]),
            dict(name="E3", path="mc/automata.py + mc/linelang.py", kind_free_text="captured recognisers -> NFA, product-automaton reachability, witnesses replayed on the real line parsers", serves_properties=[c["property_id"] for c in checks if "E3" in c["engine"]]),
            dict(name="E1-M", path="mc/envs.py", kind_free_text="environment invariance on a fixed arithmetic slice of an E1 / model-equality enumeration: every 16th-64th executed case again under 10 environments (CRLF, unknown sections in front / behind, from_filepath with Path / BOM / str, DEBUG logging on, after another valid chart, after a failed parse, after itself), differential against the plain parse", serves_properties=["C02", "C03", "C04", "C05", "C06", "C07", "C08", "C09", "C10", "C11", "C12", "C15"]),
            dict(name="E4", path="mc/sched.py", kind_free_text="preemption-bounded schedule explorer for real threads (trace-function baton)", serves_properties=[c["property_id"] for c in checks if "E4" in c["engine"]]),
        ],
        checks=checks,
        notes="All checks: ./check <id> --tier quick|thorough; honours VERIF_SEED, VERIF_TIER, VERIF_REPO (default /repo). "
        "The package is imported straight from the working tree. See DESIGN.md.",
        not_applicable=na,
    )
    with open(os.path.join(VERIF, "MANIFEST.json"), "w") as f:
        json.dump(man, f, indent=1)
        f.write("\n")
    print("checks:", len(checks), "not claimed:", len(na))


if __name__ == "__main__":
    main()
