#!/usr/bin/env python3
"""For each seeded change: run the target check against the changed copy, then verify the replay
artefacts: `./check <id> --replay <json>` exits 1 on the changed copy and 0 on /repo, and the
stand-alone script (when there is one) exits non-zero on the changed copy and 0 on /repo."""
import glob, json, os, re, shutil, subprocess, sys, tempfile

ids = sys.argv[1:] or sorted(os.path.basename(d) for d in glob.glob("/verif/seeded/*") if os.path.isdir(d))
bad = 0
for sid in ids:
    d = os.path.join("/verif/seeded", sid)
    meta = json.load(open(os.path.join(d, "meta.json")))
    pid = meta["breaks"]
    mut = tempfile.mkdtemp(prefix="rt_")
    rep = tempfile.mkdtemp(prefix="rt_replays_")
    try:
        subprocess.check_call(["cp", "-r", "/repo/.", mut])
        subprocess.check_call(["git", "-C", mut, "checkout", "-q", "--", "."])
        subprocess.check_call(["git", "-C", mut, "apply", os.path.join(d, "patch.diff")])
        env = dict(os.environ, VERIF_REPO=mut, VERIF_EVIDENCE_DIR=os.path.join(mut, ".ev"), VERIF_REPLAY_DIR=rep)
        r = subprocess.run(["/verif/check", pid], env=env, capture_output=True, text=True)
        m = re.search(r"VIOLATION property=\S+ replay=(\S+)", r.stdout)
        if not m:
            print(sid, pid, "NO VIOLATION LINE rc=%d" % r.returncode); bad += 1; continue
        path = m.group(1)
        a = subprocess.run(["/verif/check", pid, "--replay", path], env=env, capture_output=True, text=True).returncode
        b = subprocess.run(["/verif/check", pid, "--replay", path], env=dict(os.environ, VERIF_REPO="/repo"), capture_output=True, text=True).returncode
        script = path[:-5] + "_replay.py"
        c = e = None
        if os.path.exists(script):
            c = subprocess.run(["/venv/bin/python", script, mut], capture_output=True, text=True).returncode
            e = subprocess.run(["/venv/bin/python", script, "/repo"], capture_output=True, text=True).returncode
        ok = a == 1 and b == 0 and (c is None or (c != 0 and e == 0) or c == 2)
        print(sid, pid, "replay on change rc=%s, on /repo rc=%s; script on change rc=%s, on /repo rc=%s  %s" % (a, b, c, e, "OK" if ok else "PROBLEM"), flush=True)
        bad += 0 if ok else 1
    finally:
        shutil.rmtree(mut, ignore_errors=True)
        shutil.rmtree(rep, ignore_errors=True)
print("problems:", bad)
