import sys, json, importlib, hashlib
root=sys.argv[1]; hist=sys.argv[2].split(',') if sys.argv[2] else []
sys.path.insert(0, root)
out=[]
for m in hist:
    try:
        importlib.import_module(m); out.append('ok')
    except BaseException as e:
        out.append(type(e).__name__)
mods=sorted(k for k in sys.modules if k=='chartparse' or k.startswith('chartparse.'))
fp={}
ids={}
for k in mods:
    d={}
    for n,v in sorted(vars(sys.modules[k]).items()):
        if n.startswith('__'): continue
        d[n]=(type(v).__name__, getattr(v,'__module__',None) if not isinstance(v,(int,str,float,tuple,list,dict)) else None, getattr(v,'__qualname__',None))
        ids.setdefault(id(v),[]).append(k+'.'+n)
    fp[k]=d
alias=sorted(sorted(v) for v in ids.values() if len(v)>1)
print(json.dumps({'out':out,'mods':mods,'h':hashlib.sha1(json.dumps([fp,alias],sort_keys=True).encode()).hexdigest()}))
