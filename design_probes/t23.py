from h import *
import itertools, time, collections
from chartparse.exceptions import *
def render(c):
    str(c); repr(c)
    for ev in list(c.sync_track.bpm_events)+list(c.sync_track.time_signature_events)+list(c.sync_track.anchor_events)+list(c.global_events_track.text_events)+list(c.global_events_track.section_events)+list(c.global_events_track.lyric_events):
        str(ev); repr(ev)
    for i,dd in c.instrument_tracks.items():
        for d,t in dd.items():
            str(t); repr(t)
            for ev in list(t.note_events)+list(t.star_power_events)+list(t.track_events): str(ev); repr(ev); hash(ev)
SY=['0 = TS 4','0 = TS 0 63','3 = TS 99999999 5','0 = B 120000','0 = B 0','0 = B 1','5 = B 99999999','99999999 = B 1','5 = B 120000','7 = A 99999999','0 = N 0 0','garbage','']
TR=['0 = N 0 0','0 = N 5 0','0 = N 6 0','0 = N 7 99999999','99999999 = N 4 99999999','4 = N 1 3','4 = N 2 5','4 = S 2 0','2 = S 2 99999999','8 = E solo','3 = N 3 0','0 = B 1','garbage','']
EV=['0 = E "section a"','3 = E "lyric b"','9 = E "x"','99999999 = E "lyric z"','1 = E solo','garbage','','0 = E ""']
SO=['Resolution = 192','Resolution = 0','Resolution = 1','Resolution = 99999999','Offset = 5','Player2 = x','Player2 = bass','Name = "a"','garbage','']
errs=collections.Counter(); n=0; t0=time.time()
def run(song,sync,ev,tr):
    global n
    n+=1
    L=["[Song]","{"]+song+["}","[SyncTrack]","{"]+sync+["}","[Events]","{"]+ev+["}","[ExpertSingle]","{"]+tr+["}"]
    try: c=parse("\n".join(L)); render(c); errs['chart']+=1
    except (ValueError,RegexNotMatchError,MissingRequiredField) as e: errs[type(e).__name__]+=1
    except Exception as e:
        errs['ESCAPE '+type(e).__name__]+=1
        if errs['ESCAPE '+type(e).__name__]<3: print(L, repr(e))
def seqs(A,k): 
    for L in range(0,k+1):
        for s in itertools.product(A,repeat=L): yield list(s)
base_song=['Resolution = 192']; base_sync=['0 = TS 4','0 = B 120000']; base_tr=['0 = N 0 0']
for s in seqs(SY,3): run(base_song,s,['0 = E "x"'],base_tr)
for s in seqs(TR,3): run(base_song,base_sync,[],s)
for s in seqs(TR,2):
    for res in (['Resolution = 1'],['Resolution = 99999999']):
        for sy in (['0 = TS 4','0 = B 1'],['0 = TS 4','0 = B 120000','5 = B 1'],['0 = TS 4','0 = B 99999999']): run(res,sy,[],s)
for s in seqs(EV,3): run(base_song,base_sync,s,base_tr)
for s in seqs(SO,3): run(s,base_sync,[],base_tr)
for a in seqs(SY,2):
    for b in seqs(TR,2): run(base_song,a,[],b)
print(n,errs,time.time()-t0)
