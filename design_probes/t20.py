from h import *
import itertools, time, collections
G=Instrument.GUITAR; X=Difficulty.EXPERT
# ---- C10 values: all strings len<=3 over alphabet for each string field, quoted canonical
STR={'Genre':'genre','MediaType':'media_type','Name':'name','Artist':'artist','Charter':'charter','Album':'album','Year':'year','MusicStream':'music_stream','GuitarStream':'guitar_stream','RhythmStream':'rhythm_stream','BassStream':'bass_stream','DrumStream':'drum_stream','Drum2Stream':'drum2_stream','Drum3Stream':'drum3_stream','Drum4Stream':'drum4_stream','VocalStream':'vocal_stream','KeysStream':'keys_stream','CrowdStream':'crowd_stream'}
INT={'Offset':'offset','Difficulty':'difficulty','PreviewStart':'preview_start','PreviewEnd':'preview_end'}
A=['a','"',' ','=','é','\t']
vals=[''.join(t) for L in (1,2,3) for t in itertools.product(A,repeat=L)]
vals+=['Artist = "x"','  Name = "zz"','Resolution = 5','x" ','" x','""','a"b"c',' lead','trail ']
n=0;bad=[]
t0=time.time()
for F,attr in list(STR.items())[:4]:
    for v in vals:
        c=parse(mk(song_extra=[f'{F} = "{v}"']))
        n+=1
        got=getattr(c.metadata,attr)
        if got!=v: bad.append((F,v,got))
        # non-interference: all other fields default
        for F2,a2 in STR.items():
            if F2!=F:
                d=getattr(c.metadata,a2)
                if d!=( 'rock' if a2=='genre' else 'cd' if a2=='media_type' else None): bad.append(('interf',F,v,F2,d))
        if c.metadata.resolution!=192 or c.metadata.offset!=0: bad.append(('interf-int',F,v))
print("C10 values",n,bad[:5],time.time()-t0)
# orders & subsets (pairs)
fields=[(f'{F} = "{F}val"',a,f'{F}val') for F,a in STR.items()]+[(f'{F} = {i+3}',a,i+3) for i,(F,a) in enumerate(INT.items())]+[('Player2 = rhythm','player2',Player2Instrument.RHYTHM)]
n=0
for a,b in itertools.combinations(range(len(fields)),2):
    for order in ((a,b),(b,a)):
        for respos in (0,1,2):
            L=[fields[i][0] for i in order]; L.insert(respos,'Resolution = 480')
            txt=mk(song_extra=L).replace("  Resolution = 192\n","")
            c=parse(txt); n+=1
            assert c.metadata.resolution==480
            for i in order: assert getattr(c.metadata,fields[i][1])==fields[i][2],(fields[i])
print("C10 pairs/orders ok",n)
# ---- C09 values
pre=['','lyric','lyric ','section ','sectionx','  lyric ','lyric  ','Section ']
A=['a','"',' ','=',']','é']
Ts=[p+''.join(t) for p in pre for L in range(0,4) for t in itertools.product(A,repeat=L)]
n=0;bad=[]; cnt=collections.Counter()
for T in Ts:
    c=parse(mk(events=[f'7 = E "{T}"']))
    g=c.global_events_track
    lists={'text':g.text_events,'section':g.section_events,'lyric':g.lyric_events}
    if T.startswith('lyric '): exp=('lyric',T[6:])
    elif T.startswith('section '): exp=('section',T[8:])
    elif '"' not in T: exp=('text',T)
    else: exp=None
    got=[(k,e.value,e.tick) for k,l in lists.items() for e in l]
    n+=1; cnt[exp and exp[0]]+=1
    if exp is None:
        continue  # grey
    if got!=[(exp[0],exp[1],7)]: bad.append((T,got,exp))
print("C09 values",n,cnt,bad[:5])
