from h import *
from auto import *
import time, itertools
import chartparse.metadata as md
B=r'[ \t]'
lyr,sec,txt=LyricEvent.ParsedData._regex,SectionEvent.ParsedData._regex,TextEvent.ParsedData._regex
F=rf'^{B}*[0-9]+ = E "'
spec_l=F+r'lyric .*"'+rf'{B}*$'
spec_s=F+r'section .*"'+rf'{B}*$'
spec_q=F+r'[^"]*"'+rf'{B}*$'   # quoted, no inner quotes
nf=[compile_re(x) for x in (lyr,sec,txt,spec_l,spec_s,spec_q)]
bad=[];cnt=collections.Counter()
def on(st,w,acc):
    il,is_,it,sl,ss,sq=acc
    impl='lyric' if il else 'section' if is_ else 'text' if it else None
    spec='lyric' if sl else 'section' if ss else 'text' if sq else None
    cnt[(impl,spec)]+=1
    if impl!=spec: bad.append((w,impl,spec))
t=time.time(); print(product(nf,on), cnt, bad[:5], time.time()-t)
# metadata pairwise
specs=md._field_parsing_specs
names=list(specs)
t=time.time(); tot=0; overl=[]
for a,b in itertools.combinations(names,2):
    both=[]
    s,tr,nc=product([compile_re(specs[a].regex),compile_re(specs[b].regex)], lambda st,w,acc: both.append(w) if all(acc) else None)
    tot+=s
    if both: overl.append((a,b,both[0]))
print('pairs',len(names)*(len(names)-1)//2,'total states',tot,'overlaps',overl,time.time()-t)
# must inclusion for a string field
pas={'name':'Name','music_stream':'MusicStream'}
for k,P in pas.items():
    must=rf'^{B}*{P} = ".+"{B}*$'
    bad=[]
    print(k, product([compile_re(specs[k].regex),compile_re(must)], lambda st,w,acc: bad.append(w) if (acc[1] and not acc[0]) else None), bad[:3])
