import sys, os, json, subprocess, itertools, time, pickle
sys.path.insert(0,'/verif/design_probes')
from h import *
from chartparse.exceptions import *
corpus=[
 mk(tracks={"ExpertSingle":["0 = N 0 5","0 = N 1 0","64 = N 2 0","70 = S 2 10"]}),
 mk(res=100,tracks={"ExpertSingle":["0 = N 0 5","0 = N 1 0","33 = N 2 0","34 = N 2 0"]}),
 mk(res=5,tracks={"HardSingle":["0 = N 0 0","0 = N 1 5","2 = N 3 0"]},events=['1 = E "lyric a"']),
 mk(tracks={"ExpertSingle":["0 = N 0 0","0 = N 5 0"]},events=['1 = E "lyric a"']),   # fails late
 mk(sync=["0 = TS 4","5 = B 1","0 = B 2"]),  # fails in sync
 "[Song]\n{\n  Resolution = 192\n}\n",  # missing sections
]
def outcome(txt):
    try:
        c=parse(txt)
        return repr(c)+"|"+"|".join(repr(e)+str(e.end_tick)+str(e.longest_sustain) for dd in c.instrument_tracks.values() for t in dd.values() for e in t.note_events)
    except (ValueError,RegexNotMatchError,MissingRequiredField) as e: return "EXC "+type(e).__name__+str(e)
if len(sys.argv)>1:
    i=int(sys.argv[1]); print(json.dumps(outcome(corpus[i]))); sys.exit()
base=[json.loads(subprocess.run([sys.executable,__file__,str(i)],capture_output=True,text=True).stdout) for i in range(len(corpus))]
n=0;bad=0;t0=time.time()
for L in (1,2,3):
    for seq in itertools.product(range(len(corpus)),repeat=L):
        r,w=os.pipe(); pid=os.fork()
        if pid==0:
            os.close(r)
            for i in seq[:-1]: outcome(corpus[i])
            o=outcome(corpus[seq[-1]])
            os.write(w,b'1' if o==base[seq[-1]] else b'0'); os._exit(0)
        os.close(w); res=os.read(r,1); os.close(r); os.waitpid(pid,0)
        n+=1; bad+= res!=b'1'
print("C17 histories",n,"bad",bad,time.time()-t0)
