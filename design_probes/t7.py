import time,random
t=time.time()
bad=0
for n in range(1,10**7+1):
    x=n/1000
    if round(x,3)!=x: bad+=1
print("bad",bad,time.time()-t)
random.seed(0)
for _ in range(10**6):
    n=random.randint(1,10**random.randint(1,18))
    x=n/1000
    if round(x,3)!=x: bad+=1
print(bad)
