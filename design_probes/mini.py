import sys, os, io, itertools, collections, logging
ROOT=os.environ.get('VR','/repo'); sys.path.insert(0,ROOT)
from fractions import Fraction as F
from datetime import timedelta
from chartparse.chart import Chart
from chartparse.instrument import Instrument, Difficulty
from chartparse.exceptions import *
logging.getLogger('chartparse').setLevel(logging.CRITICAL)
G=Instrument.GUITAR; X=Difficulty.EXPERT
def mk(res=192, sync=("0 = TS 4","0 = B 120000"), events=(), tracks=None, song_extra=(), nl="\n"):
    L=["[Song]","{",f"  Resolution = {res}"]+["  "+s for s in song_extra]+["}","[SyncTrack]","{"]+["  "+s for s in sync]+["}","[Events]","{"]+["  "+s for s in events]+["}"]
    for name, body in (tracks or {}).items(): L += [f"[{name}]","{"]+["  "+s for s in body]+["}"]
    return nl.join(L)+nl
def parse(t,**kw): return Chart.from_file(io.StringIO(t),**kw)
V=[]
def viol(*a):
    V.append(a)
def us(td): return (td.days*86400+td.seconds)*10**6+td.microseconds
def exact(tempo,res,tick):
    t=F(0)
    for i,(tk,n) in enumerate(tempo):
        nxt=tempo[i+1][0] if i+1<len(tempo) else None
        if nxt is not None and nxt<=tick: t+=F((nxt-tk)*60*10**9,n*res)
        else: return t+F((tick-tk)*60*10**9,n*res), i
def c01():
    for res in (1,7,192):
      for k in (1,2,3):
        for ns in itertools.product((1,1001,120000,333333),repeat=k):
          for gaps in itertools.product((1,3,192),repeat=k-1):
            ticks=[0]
            for g in gaps: ticks.append(ticks[-1]+g)
            tempo=list(zip(ticks,ns))
            probes=sorted({0,1}|{t+d for t in ticks for d in (-1,0,1) if t+d>=0}|{ticks[-1]+191})
            body=[f"{q} = N 0 {probes[i+1]-q if i+1<len(probes) else 2}" for i,q in enumerate(probes)]+[f"{q} = S 2 1" for q in probes]+[f"{q} = E solo" for q in probes]
            try: c=parse(mk(res=res,sync=[f"{t} = B {n}" for t,n in tempo]+[f"{q} = TS 4" for q in probes],events=[f'{q} = E "x"' for q in probes],tracks={"ExpertSingle":body}))
            except ValueError: continue
            be=c.sync_track.bpm_events
            def chk(tick,ts,what):
                ex,seg=exact(tempo,res,tick)
                if ex>=10**12: return
                if abs(us(ts)-ex)>F(seg+1,2)+F(seg+1,500): viol('C01',res,tempo,tick,what,us(ts),float(ex))
            for q in probes:
                try: chk(q,be.timestamp_at_tick_no_optimize_return(q),'query')
                except ValueError as e: viol('C01',res,tempo,q,'query raises')
            t=c[G][X]
            for e in list(be)+list(c.sync_track.time_signature_events)+list(c.global_events_track.text_events)+list(t.star_power_events)+list(t.track_events)+list(t.note_events): chk(e.tick,e.timestamp,type(e).__name__)
            for e in t.note_events: chk(e.end_tick,e.end_timestamp,'note end')
            if V: return
combos=[tuple(i for i in range(5) if m>>i&1) for m in range(32)]
def nl(t,combo,flags=(),sus=0):
    L=[f"{t} = N 7 {sus}"] if not combo else [f"{t} = N {i} {sus}" for i in combo]
    return L+[f"{t} = N {f} 0" for f in flags]
def lanes(c): return tuple(int(i in c) for i in range(5))
def c02():
    for a in combos:
      for b in combos:
        for gap in (1,100):
          for fb in ((),(5,6)):
            for inter in (0,1):
              la=nl(0,a); lb=nl(gap,b,fb)
              body=la+lb if inter==0 else la[:1]+["0 = S 2 1",f"{gap} = E solo"]+la[1:]+lb[:1]+["0 = S 2 1"]+lb[1:]
              try:
                  c=parse(mk(tracks={"ExpertSingle":body})); ev=c[G][X].note_events
                  got=[(e.tick,e.note.value) for e in ev]
              except Exception as e: got=repr(e)
              if got!=[(0,lanes(a)),(gap,lanes(b))]: viol('C02',body,got); return
    for a in combos[1:8]:
      for b in combos:
        for c_ in combos[::3]:
            body=nl(0,a)+nl(1,b)+nl(2,c_)
            c=parse(mk(tracks={"ExpertSingle":body}))
            if [(e.tick,e.note.value) for e in c[G][X].note_events]!=[(0,lanes(a)),(1,lanes(b)),(2,lanes(c_))]: viol('C02',body); return
def c03():
    for pat in itertools.product((None,0,3,5),repeat=5):
        if all(p is None for p in pat): continue
        for flags in ((),(6,)):
          for ctx in (0,1,2):
            body=[f"10 = N {i} {l}" for i,l in enumerate(pat) if l is not None]+[f"10 = N {f} 9" for f in flags]
            if ctx==1: body=["2 = N 0 0"]+body
            if ctx==2: body=body+["12 = N 1 1"]
            try:
                c=parse(mk(sync=("0 = TS 4","0 = B 120000","12 = B 60000"),tracks={"ExpertSingle":body}))
                t=c[G][X]; e=[x for x in t.note_events if x.tick==10][0]
                act=[l for l in pat if l is not None]; exp=act[0] if len(set(act))==1 else tuple(pat)
                q=c.sync_track.bpm_events.timestamp_at_tick_no_optimize_return
                ok=(e.sustain==exp and e.longest_sustain==max(act) and e.end_tick==10+max(act) and e.end_timestamp==q(e.end_tick)>=e.timestamp and t.last_note_end_timestamp==max(x.end_timestamp for x in t.note_events))
            except Exception as ex: ok=False
            if not ok: viol('C03',body); return
    c=parse(mk(tracks={"ExpertSingle":["0 = N 7 5","0 = N 6 3"]})); e=c[G][X].note_events[0]
    if e.sustain!=5: viol('C03','open')
    if parse(mk(tracks={"ExpertSingle":["0 = S 2 5"]}))[G][X].last_note_end_timestamp is not None: viol('C03','empty')
def c04():
    for res in (1,2,4,5,100,192):
        thr=(res+1)//3
        for d in sorted({1,max(1,thr-1),max(1,thr),thr+1,3*thr+5}):
            for fa in ((),(6,)):
              for fl in ((),(5,),(6,),(5,6)):
                body=nl(0,(0,)); exp=[]; t=10*res+50
                for a in combos:
                    for b in combos:
                        body+=nl(t,a,fa); body+=nl(t+d,b,fl)
                        nat=(len(b)<=1) and (a!=b) and d<=thr
                        exp.append('TAP' if 6 in fl else ('HOPO' if nat!=(5 in fl) else 'STRUM')); t+=d+10*res+50
                try:
                    c=parse(mk(res=res,tracks={"ExpertSingle":body})); ev=c[G][X].note_events
                    got=[ev[2*i+2].hopo_state.name for i in range(len(exp))]
                except Exception as e: got=repr(e)
                if got!=exp: viol('C04',res,d,fl); return
def c05():
    P=[(t,l) for t in range(0,5) for l in range(0,4)]
    lists=[()]+[(p,) for p in P]+[(p,q) for p in P for q in P if p[0]<=q[0]]
    for phr in lists[::3]:
        for k in range(1,1<<7):
            notes=[i for i in range(7) if k>>i&1]
            body=[f"{t} = S 2 {l}" for t,l in phr]+[f"{t} = N 0 0" for t in notes]
            try:
                c=parse(mk(tracks={"ExpertSingle":body}))
                got=[e.star_power_data.star_power_event_index if e.star_power_data else None for e in c[G][X].note_events]
            except Exception as e: got=repr(e)
            exp=[next((i for i,(t,l) in enumerate(phr) if t<=n<t+l),None) for n in notes]
            if got!=exp: viol('C05',phr,notes,got,exp); return
def c06():
    base=mk(sync=("0 = TS 4","0 = B 120000"),events=['0 = E "section a"'],tracks={"ExpertSingle":["0 = N 0 0"],"EasyDrums":["5 = N 1 0"]})
    c0=parse(base); secs=["["+s for s in base.split("[")[1:]]
    for perm in itertools.permutations(secs):
        for nlc in ("\n","\r\n"):
            try: ok=parse("".join(perm).replace("\n",nlc))==c0
            except Exception: ok=False
            if not ok: viol('C06','perm',nlc); return
    import tempfile, pathlib
    with tempfile.TemporaryDirectory() as d:
        for bom in (b'',b'\xef\xbb\xbf'):
            for nlc in ("\n","\r\n"):
                p=pathlib.Path(d)/'x.chart'; p.write_bytes(bom+base.replace("\n",nlc).encode())
                try: ok=Chart.from_filepath(p)==c0
                except Exception: ok=False
                if not ok: viol('C06','path',bom,nlc); return
    names={d.value+i.value:(i,d) for d in Difficulty for i in Instrument}
    for k,h in enumerate(names):
        c=parse(mk(tracks={h:[f"{k} = N 0 0"]})); i,d=names[h]
        try: ok=list(c.instrument_tracks)==[i] and list(c[i])==[d] and (c[i][d].instrument,c[i][d].difficulty)==(i,d) and c[i][d].note_events[0].tick==k
        except Exception: ok=False
        if not ok: viol('C06','route',h); return
def c11():
    T=(0,1,4,5,6,9,10,11,20); sync=("0 = TS 4","0 = B 120000","5 = B 60000","10 = B 240000")
    kinds={'TS':lambda t:("sync",f"{t} = TS 3"),'text':lambda t:("ev",f'{t} = E "x"'),'S':lambda t:("tr",f"{t} = S 2 3"),'E':lambda t:("tr",f"{t} = E solo"),'N':lambda t:("tr",f"{t} = N 0 6")}
    for kind,mkline in kinds.items():
        for seq in itertools.product(T,repeat=3):
            sy=list(sync); ev=[]; tr=[]
            for t in seq:
                where,l=mkline(t); {'sync':sy,'ev':ev,'tr':tr}[where].append(l)
            try: c=parse(mk(sync=sy,events=ev,tracks={"ExpertSingle":tr}))
            except ValueError: continue
            be=c.sync_track.bpm_events; q=be.timestamp_at_tick_no_optimize_return
            evs=list(c.sync_track.time_signature_events)+list(c.global_events_track.text_events)+list(c[G][X].star_power_events)+list(c[G][X].track_events)+list(c[G][X].note_events)
            for e in evs:
                if e.timestamp!=q(e.tick) or (hasattr(e,'end_timestamp') and e.end_timestamp!=q(e.end_tick)): viol('C11',kind,seq); return
    c=parse(mk(sync=sync)); be=c.sync_track.bpm_events
    for qt in range(0,14):
        ref=be.timestamp_at_tick(qt); gi=max(i for i,t in enumerate((0,5,10)) if t<=qt)
        if ref[1]!=gi: viol('C11','index',qt)
        for h in range(0,4):
            try: r=be.timestamp_at_tick(qt,start_iteration_index=h)
            except ValueError: r='VE'
            if not ((r==ref) if h<=gi else (r=='VE')): viol('C11','table',qt,h,r); return
def c13():
    names={d.value+i.value:(i,d) for d in Difficulty for i in Instrument}
    U=["ExpertSingle","HardSingle","ExpertDoubleBass","EasyDrums"]; absent=(Instrument.KEYS,Difficulty.MEDIUM)
    for fm in range(16):
        tracks={h:[f"{j} = N {j} {j}"] for j,h in enumerate(U) if fm>>j&1}
        txt=mk(tracks=tracks); full=parse(txt); pairs=[names[h] for h in U]+[absent]
        for sm in range(32):
            sel=[p for j,p in enumerate(pairs) if sm>>j&1]
            c=parse(txt,want_tracks=sel)
            got={(i,d):t for i,dd in c.instrument_tracks.items() for d,t in dd.items()}
            exp={names[h]:full[names[h][0]][names[h][1]] for h in tracks if names[h] in sel}
            if got!=exp: viol('C13',fm,sm); return
def c09():
    for T,exp in (('lyric a b','lyric'),('section a','section'),('x','text'),('lyric','text'),('lyric a"b','lyric')):
        c=parse(mk(events=[f'7 = E "{T}"'])); g=c.global_events_track
        got=[k for k,l in (('text',g.text_events),('section',g.section_events),('lyric',g.lyric_events)) for e in l]
        if got!=[exp]: viol('C09',T,got)
def c14():
    base=dict(sync=["0 = TS 4","0 = B 120000","10 = B 90000"],events=['0 = E "section a"','5 = E "lyric b"'],tracks={"ExpertSingle":["0 = N 0 0","0 = N 1 4","3 = S 2 10","4 = E solo"]})
    def ob(c): return (repr(c.sync_track),repr(c.global_events_track),repr(c.instrument_tracks))
    o0=ob(parse(mk(**base)))
    for sec,gs in (('sync',['','garbage','0 = N 0 0']),('events',['','0 = E solo']),('tracks',['','2 = S 64 5','2 = N 8 0','2 = E two words'])):
        lines=base[sec] if sec!='tracks' else base['tracks']['ExpertSingle']
        for g in gs:
            for pos in range(len(lines)+1):
                new=lines[:pos]+[g]+lines[pos:]; kw=dict(base)
                if sec=='tracks': kw['tracks']={"ExpertSingle":new}
                else: kw[sec]=new
                try: ok=ob(parse(mk(**kw)))==o0
                except Exception as e: ok=False
                if not ok: viol('C14',sec,g,pos); return
def c15():
    def tp(**kw):
        try: return parse(mk(**kw))
        except ValueError: return 'VE'
        except Exception as e: return type(e).__name__
    bs=[(0,120000),(10,120001),(20,120002),(30,120003)]
    def sy(b,ts=((0,4),)): return [f"{t} = TS {u}" for t,u in ts]+[f"{t} = B {n}" for t,n in b]
    for k in range(1,5):
        b=bs[:k]
        for name,r in (('drop0',tp(sync=sy(b[1:]))),('shift0',tp(sync=sy([(1,b[0][1])]+b[1:]))),('dropTS',tp(sync=sy(b,ts=()))),('shiftTS',tp(sync=sy(b,ts=((1,4),)))),('res0',tp(res=0,sync=sy(b)))):
            if r!='VE': viol('C15',name,k)
        for j in range(k):
            if j+1<k:
                dup=list(b); dup[j+1]=(b[j][0],b[j+1][1])
                if tp(sync=sy(dup))!='VE': viol('C15','dup',k,j)
                sw=list(b); sw[j],sw[j+1]=sw[j+1],sw[j]
                if tp(sync=sy(sw))!='VE': viol('C15','swap',k,j)
            z=list(b); z[j]=(b[j][0],0)
            for off in (0,1):
                t=b[j][0]+off
                for kw in (dict(events=[f'{t} = E "x"']),dict(tracks={"ExpertSingle":[f"{t} = N 0 0"]})):
                    if tp(sync=sy(z),**kw)!='VE': viol('C15','zero-gov',k,j,off)
    c=parse(mk())
    try: c.sync_track.bpm_events.timestamp_at_tick_no_optimize_return(-1); viol('C15','neg')
    except ValueError: pass
def c16():
    sync=("0 = TS 4","0 = B 120000","50 = B 60000","100 = B 333333")
    body=["10 = N 0 0","50 = N 1 200","51 = N 2 0","99 = N 0 0","100 = N 3 0","130 = N 4 5"]
    c=parse(mk(res=100,sync=sync,tracks={"ExpertSingle":body,"HardSingle":["3 = S 2 4"]}))
    tr=c[G][X]; q=c.sync_track.bpm_events.timestamp_at_tick_no_optimize_return
    nt=[e.timestamp for e in tr.note_events]; u=timedelta(microseconds=1)
    lne=max(q(e.tick+ (e.sustain if isinstance(e.sustain,int) else 0)) for e in tr.note_events)
    def orc(s,e):
        if (e-s)<=timedelta(0): return 'VE'
        return F(sum(1 for t in nt if s<=t<=e)*10**6,(e-s)//u)
    def run(*a):
        try: return c.notes_per_second(G,X,*a)
        except ValueError: return 'VE'
    def cmp(g,e): return g==e if 'VE' in (g,e) else abs(F(g)-e)<=e*F(1,10**12)
    if not cmp(run(),orc(timedelta(0),lne)): viol('C16','default')
    ticks=sorted({0,400}|{e.tick+d for e in tr.note_events for d in (-1,0,1)})
    for s in ticks:
        if not cmp(run(s),orc(q(s),lne)): viol('C16','s',s); return
        for e in ticks:
            if not cmp(run(s,e),orc(q(s),q(e))): viol('C16',s,e); return
    for s in nt:
        for e in nt:
            if not cmp(run(s,e),orc(s,e)): viol('C16','t',s,e); return
def c19():
    txt=mk(tracks={"ExpertSingle":["0 = N 0 0","5 = N 1 3"]})
    def ob(c): return (repr(c),sorted(str(k) for k in c.instrument_tracks))
    for op in (lambda c:c[Instrument.BASS],lambda c:c.notes_per_second(Instrument.BASS,X),lambda c:c.notes_per_second(G,X),lambda c:c.notes_per_second(G,X,0,5),lambda c:c.notes_per_second(G,X,5,5),lambda c:str(c),lambda c:c[G][X].note_events[0].end_tick,lambda c:c[G][X].last_note_end_timestamp):
        c=parse(txt); tw=parse(txt); o=ob(c)
        try: op(c)
        except Exception: pass
        if ob(c)!=o or c!=tw: viol('C19',op.__code__.co_firstlineno)
if __name__=='__main__':
    for name in sys.argv[1:]:
        V.clear()
        try: globals()[name]()
        except Exception as e: V.append(('CRASH',repr(e)))
        print(name,'VIOL' if V else 'ok',V[:1])
