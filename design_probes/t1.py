from h import *
import time
txt = mk(tracks={"ExpertSingle":["0 = N 0 0","96 = N 1 0","192 = N 2 10","192 = N 3 20","300 = S 2 100","400 = E solo"]})
t=time.time()
for _ in range(2000): c=parse(txt)
print("per parse us", (time.time()-t)/2000*1e6)
print(c)
print(repr(c)[:600])
for e in c[Instrument.GUITAR][Difficulty.EXPERT].note_events: print(e, e.end_timestamp, e.end_tick)
