from h import *
import itertools, time
# C12 monotonic prototype
t0=time.time(); n=0; viol=0; strictviol=0
for res in (1,3,192,960):
  for k in (1,2,3):
    for ns in itertools.product((1,1000,120000,29999999//max(res,1) if 29999999//res>0 else 1,10**9),repeat=k):
      for gaps in itertools.product((1,2,7),repeat=k-1):
        ticks=[0]
        for g in gaps: ticks.append(ticks[-1]+g)
        try:
            c=parse(mk(res=res,sync=["0 = TS 4"]+[f"{t} = B {n_}" for t,n_ in zip(ticks,ns)]))
        except ValueError as e:
            continue
        be=c.sync_track.bpm_events
        strict=all(n_/1000*res<=3e7 for n_ in ns)
        prev=None
        for q in range(0,ticks[-1]+6):
            ts=be.timestamp_at_tick_no_optimize_return(q)
            if prev is not None:
                n+=1
                if ts<prev: viol+=1; print("VIOL",res,ns,ticks,q)
                if strict and ts<=prev: strictviol+=1; print("STRICT",res,ns,ticks,q,ts,prev)
            prev=ts
print(n,viol,strictviol,time.time()-t0)
# C06: unknown sections w/ odd bodies, permutation
import logging
base=mk(sync=("0 = TS 4","0 = B 120000"),events=['0 = E "section a"'],tracks={"ExpertSingle":["0 = N 0 0"],"EasyDrums":["5 = N 1 0"]})
c0=parse(base)
unk="[Foo]\n{\n  [Song]\n  0 = N 0 0\n{\n  Resolution = 7\n}\n"
for pos in range(0,6):
    secs=base.split("[")[1:]; secs=["["+s for s in secs]
    secs.insert(pos,unk)
    c=parse("".join(secs))
    print(pos, c==c0, list(c.instrument_tracks))
import itertools
secs=["["+s for s in base.split("[")[1:]]
oks=0
for perm in itertools.permutations(secs):
    c=parse("".join(perm)); oks+= (c==c0)
print("perms equal", oks, "of 120")
print(parse(base.replace("\n","\r\n"))==c0)
