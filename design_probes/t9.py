from h import *
import re, sys
import re._parser as sp
pats=[]
def prof(frame, event, arg):
    if event=='c_call' and getattr(arg,'__name__','') in ('match','fullmatch','search') and isinstance(getattr(arg,'__self__',None), re.Pattern):
        pats.append(arg.__self__)
sys.setprofile(prof)
try:
    NoteEvent.ParsedData.from_chart_line("probe")
except Exception as e: pass
sys.setprofile(None)
print([p.pattern for p in pats])
pats.clear()
sys.setprofile(prof)
parse(mk(sync=("0 = TS 4","0 = B 120000","garbage"),events=("garbage",),tracks={"ExpertSingle":["garbage"]},song_extra=("garbage",)))
sys.setprofile(None)
seen=[]
for p in pats:
    if p.pattern not in seen: seen.append(p.pattern)
print(len(pats),len(seen))
for s in seen: print(repr(s))
print(sp.parse(r"^\s*?(\d+?) = TS (\d+?)(?: (\d+?))?\s*?$"))
print(sp.parse(r'^\s*?Name = \"?(.+?)\"?\s*?$'))
print(sp.parse(r'^\s*?(\d+?) = E ([^ ]*?)\s*?$'))
