from h import *
import itertools, collections
G=Instrument.GUITAR; X=Difficulty.EXPERT
def tryparse(**kw):
    try: return parse(mk(**kw))
    except ValueError as e: return 'VE'
    except Exception as e: return type(e).__name__
ticks=[0,10,20,30]
base_b=[(t,120000+i) for i,t in enumerate(ticks)]
res=collections.Counter()
def sync(bs,ts=((0,4),)): return [f"{t} = TS {u}" for t,u in ts]+[f"{t} = B {n}" for t,n in bs]
for k in range(1,5):
    bs=base_b[:k]
    # drop/shift tick0 tempo
    res['drop0',tryparse(sync=sync(bs[1:]))]+=1
    res['shift0',tryparse(sync=sync([(1,bs[0][1])]+bs[1:]))]+=1
    res['dropTS',tryparse(sync=sync(bs,ts=()))]+=1
    res['shiftTS',tryparse(sync=sync(bs,ts=((1,4),)))]+=1
    res['res0',tryparse(res=0,sync=sync(bs))]+=1
    for j in range(k):
        if j+1<k:
            dup=list(bs); dup[j+1]=(bs[j][0],bs[j+1][1]); res['dup',tryparse(sync=sync(dup))]+=1
            sw=list(bs); sw[j],sw[j+1]=sw[j+1],sw[j]; res['swap',tryparse(sync=sync(sw))]+=1
        z=list(bs); z[j]=(bs[j][0],0)
        # no governed events except possibly next tempo
        r=tryparse(sync=sync(z) if j>0 else sync(z,ts=()))  # TS at 0 governed when j==0
        exp='VE' if (j+1<k or j==0) else 'chart'
        got='VE' if r=='VE' else 'chart' if isinstance(r,Chart) else r
        res['zero-bare',got==exp]+=1
        if isinstance(r,Chart):
            be=r.sync_track.bpm_events
            for qt in range(-2,bs[-1][0]+3):
                try: v=be.timestamp_at_tick_no_optimize_return(qt); o='val'
                except ValueError: o='VE'
                gov=max([i for i,(t,_) in enumerate(z) if t<=qt],default=None)
                e='VE' if (qt<0 or z[gov][1]==0) else 'val'
                res['zero-query',o==e]+=1
        # with a governed event of each kind at tick z_j, z_j+1
        for off in (0,1):
            t=bs[j][0]+off
            for kw in (dict(events=[f'{t} = E "x"']),dict(tracks={"ExpertSingle":[f"{t} = N 0 0"]}),dict(tracks={"ExpertSingle":[f"{t} = S 2 1"]}),dict(tracks={"ExpertSingle":[f"{max(t-3,0)} = N 0 3"]} if t>=3 else dict(events=[f'{t} = E "y"']))):
                r=tryparse(sync=sync(z), **kw); res['zero-gov',r]+=1
print(res)
