from h import *
from auto import *
import time
B=r'[ \t]'
impl={'N':NoteEvent.ParsedData._regex,'S':StarPowerEvent.ParsedData._regex,'E':TrackEvent.ParsedData._regex,
      'B':BPMEvent.ParsedData._regex,'TS':TimeSignatureEvent.ParsedData._regex,'A':AnchorEvent.ParsedData._regex}
must={'N':rf'^{B}*[0-9]+ = N [0-7] [0-9]+{B}*$','S':rf'^{B}*[0-9]+ = S 2 [0-9]+{B}*$','E':rf'^{B}*[0-9]+ = E [^ \t]+{B}*$',
      'B':rf'^{B}*[0-9]+ = B [0-9]+$','TS':rf'^{B}*[0-9]+ = TS [0-9]+( [0-9]+)?$','A':rf'^{B}*[0-9]+ = A [0-9]+$'}
may={'N':must['N'],'S':must['S'],'E':rf'^{B}*[0-9]+ = E [^ ]*{B}*$','B':rf'^{B}*[0-9]+ = B [0-9]+{B}*$','TS':rf'^{B}*[0-9]+ = TS [0-9]+( [0-9]+)?{B}*$','A':rf'^{B}*[0-9]+ = A [0-9]+{B}*$'}
for k in impl:
    ni,nm,ny=compile_re(impl[k]),compile_re(must[k]),compile_re(may[k])
    bad=[]
    def on(st,w,acc):
        i,m,y=acc
        if m and not i: bad.append(('must-not-accepted',w))
        if i and not y: bad.append(('accepted-outside-may',w))
    t=time.time(); s,tr,nc=product([ni,nm,ny],on)
    print(k,'states',s,'trans',tr,'classes',nc,'bad',bad[:3],round(time.time()-t,2))
# conformance: all strings up to len 4 over class reps vs real re
ni=compile_re(impl['N']); cl=classes([ni]); reps=[c[0] for c in cl]; print(len(reps),reps)
prog=re.compile(impl['N']); n=0; mism=0
for L in range(0,6):
    for tup in itertools.product(reps,repeat=L):
        s=''.join(tup); n+=1
        if bool(prog.match(s))!=accepts(ni,s): mism+=1
print('conformance',n,mism)
# disjointness
for a,b in itertools.combinations(['N','S','E'],2):
    both=[]
    s,tr,nc=product([compile_re(impl[a]),compile_re(impl[b])], lambda st,w,acc: both.append(w) if all(acc) else None)
    print(a,b,'states',s,'both',both[:2])
for a,b in itertools.combinations(['B','TS','A'],2):
    both=[]
    s,tr,nc=product([compile_re(impl[a]),compile_re(impl[b])], lambda st,w,acc: both.append(w) if all(acc) else None)
    print(a,b,'states',s,'both',both[:2])
