from h import *
import itertools, time
from chartparse.tick import note_duration_to_ticks, NoteDuration
bad=[r for r in range(1,20001) if note_duration_to_ticks(r, NoteDuration.EIGHTH_TRIPLET)!=(r+1)//3]
print("thr mismatches", bad[:10])
# C05 exhaustive small
def spcheck(phr, notes):
    body=[f"{t} = S 2 {l}" for t,l in phr]+[f"{t} = N 0 0" for t in notes]
    c=parse(mk(tracks={"ExpertSingle":body}))
    tr=c[Instrument.GUITAR][Difficulty.EXPERT]
    for e in tr.note_events:
        exp=None
        for i,(t,l) in enumerate(phr):
            if t<=e.tick<t+l: exp=i;break
        got=e.star_power_data.star_power_event_index if e.star_power_data else None
        if got!=exp: return (phr,notes,e.tick,got,exp)
    return None
t0=time.time(); n=0
P=[(t,l) for t in range(0,5) for l in range(0,4)]
lists=[()]+[(p,) for p in P]+[(p,q) for p in P for q in P if p[0]<=q[0]]
for phr in lists:
    for k in range(0,1<<7):
        notes=[i for i in range(7) if k>>i&1]
        if not notes: continue
        n+=1
        r=spcheck(phr,notes)
        if r: print("VIOL",r); raise SystemExit
print(n, time.time()-t0)
