from h import *
def tr(body, res=192, sync=("0 = TS 4","0 = B 120000")):
    try:
        c=parse(mk(res=res, sync=sync, tracks={"ExpertSingle":body}))
    except Exception as e:
        return f"EXC {type(e).__name__}: {e}"
    t=c[Instrument.GUITAR][Difficulty.EXPERT]
    return [(e.tick,e.note.name,e.sustain,e.hopo_state.name,e.star_power_data and e.star_power_data.star_power_event_index, e.end_tick) for e in t.note_events], [(s.tick,s.sustain) for s in t.star_power_events], [(s.tick,s.value) for s in t.track_events]
print(tr(["0 = N 5 0"]))
print(tr(["0 = N 6 5"]))
print(tr(["0 = N 7 100","0 = N 6 0"]))
print(tr(["0 = N 6 0","0 = N 7 100"]))
print(tr(["0 = N 7 100","0 = N 0 50"]))
print(tr(["0 = N 0 50","0 = N 7 100"]))
print(tr(["10 = N 0 0","5 = N 1 0"]))
print(tr(["10 = N 0 0","5 = N 1 0"], sync=("0 = TS 4","0 = B 120000","7 = B 60000")))
print(tr(["0 = N 0 0","0 = S 2 5","0 = N 1 0", "0 = E solo","0 = N 2 7", "3 = N 4 9"]))
print(tr(["  0 = N 0 0  ","\t1 = N 1 0\t"," 2 = S 64 5","3 = N 8 0","4 = E two words","5 = E","6 = E ", "7 = E  x", '8 = E "lyric"', "9 = N 0 0 0", "10 = N 00 0", "011 = N 1 007"]))
print(tr(["0 = N 0 0","0 = N 0 5"]))
