from h import *
import sys, threading, time
PKG='/repo/chartparse/'
class Sched:
    def __init__(self, switches, opcode=False):
        self.switches=list(switches); self.step=0; self.sem=[threading.Semaphore(0),threading.Semaphore(0)]
        self.done=[False,False]; self.cur=0; self.opcode=opcode; self.trace=[]
    def point(self, tid):
        # called by running thread tid at each scheduling point
        self.step+=1
        if self.switches and self.step==self.switches[0]:
            self.switches.pop(0)
            other=1-tid
            if not self.done[other]:
                self.cur=other
                self.sem[other].release()
                self.sem[tid].acquire()
    def mk_tracer(self, tid):
        def local(frame, event, arg):
            if event=='line' and not self.opcode: self.point(tid)
            elif event=='opcode' and self.opcode: self.point(tid)
            return local
        def tracer(frame, event, arg):
            if not frame.f_code.co_filename.startswith(PKG): return None
            if self.opcode: frame.f_trace_opcodes=True
            return local
        return tracer
    def run(self, fns):
        res=[None,None]
        def body(tid):
            self.sem[tid].acquire()
            sys.settrace(self.mk_tracer(tid))
            try: res[tid]=('ok',fns[tid]())
            except Exception as e: res[tid]=('exc',repr(e))
            finally:
                sys.settrace(None)
                self.done[tid]=True
                other=1-tid
                if not self.done[other]:
                    self.cur=other; self.sem[other].release()
        ths=[threading.Thread(target=body,args=(i,)) for i in range(2)]
        for t in ths: t.start()
        self.sem[0].release()
        for t in ths: t.join()
        return res, self.step
A = mk(tracks={"ExpertSingle":["0 = N 0 0","0 = N 1 5","96 = N 2 0"]})
B = mk(res=100,tracks={"HardSingle":["0 = N 3 7","0 = N 4 5","10 = N 2 0", "10 = N 6 0"]}, events=['3 = E "lyric x"'])
def obs(c): return repr(c)+"|".join(repr(e) for dd in c.instrument_tracks.values() for t in dd.values() for e in t.note_events)
fa=lambda: obs(parse(A)); fb=lambda: obs(parse(B))
ra=fa(); rb=fb()
s=Sched([]); r,n=s.run([fa,fb]); print(n, r[0][1]==ra, r[1][1]==rb)
t=time.time(); k=0
s0=Sched([]); _,total=s0.run([fa,lambda: None])
print("A steps", total)
for p in range(1,total,1):
    s=Sched([p]); r,n=s.run([fa,fb]); k+=1
    assert r[0]==('ok',ra) and r[1]==('ok',rb), (p,r)
print(k, time.time()-t)
s=Sched([], opcode=True); r,n=s.run([fa,fb]); print("opcode steps", n)
