from h import *
import re, sys
def capture(text):
    calls=[]
    def prof(frame, event, arg):
        if event=='c_call' and getattr(arg,'__name__','') in ('match','fullmatch','search') and isinstance(getattr(arg,'__self__',None), re.Pattern):
            calls.append(arg.__self__)
    sys.setprofile(prof)
    try: parse(text)
    finally: sys.setprofile(None)
    return calls
base=dict(sync=["0 = TS 4","0 = B 120000"],events=['0 = E "x"'],tracks={"ExpertSingle":["0 = N 0 0"]})
b=capture(mk(**base))
def diff(a,b):
    i=0
    while i<len(a) and i<len(b) and a[i] is b[i]: i+=1
    j=0
    while j<len(a)-i and j<len(b)-i and a[-1-j] is b[-1-j]: j+=1
    return b[i:len(b)-j]
G="@@garbage@@"
for sec in ('sync','events','tracks'):
    kw={k:(list(v) if isinstance(v,list) else {kk:list(vv) for kk,vv in v.items()}) for k,v in base.items()}
    if sec=='tracks': kw['tracks']['ExpertSingle'].append(G)
    else: kw[sec].append(G)
    c=capture(mk(**kw))
    print(sec,[p.pattern for p in diff(b,c)])
# metadata: garbage line appended in [Song]
c=capture(mk(song_extra=[G],**base))
d=diff(b,c); print('song extra calls',len(d)); 
# all metadata patterns in order (unique)
seen=[]
for p in c:
    if ' = \\"?' in p.pattern and p.pattern not in seen: seen.append(p.pattern)
print(len(seen))
