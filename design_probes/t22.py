from h import *
import itertools, time, collections
from chartparse.exceptions import *
G=Instrument.GUITAR; X=Difficulty.EXPERT
combos=[tuple(i for i in range(5) if m>>i&1) for m in range(32)]
def lines(t,combo,flags,order=0):
    if not combo: L=[f"{t} = N 7 0"]
    else:
        idx=list(combo)
        if order==1: idx=idx[::-1]
        elif order==2: idx=idx[1:]+idx[:1]
        L=[f"{t} = N {i} 0" for i in idx]
    return L+[f"{t} = N {f} 0" for f in flags]
t0=time.time(); n=0
for a in combos:
  for b in combos:
    for gap in (1,2,100):
      for fa in ((),(6,)):
        for fb in ((),(5,),(6,),(5,6)):
          for order in (0,1,2):
            for inter in range(5):
              la=lines(0,a,fa,order); lb=lines(gap,b,fb,order)
              S=["0 = S 2 1", f"{gap} = E solo"]
              if inter==0: body=la+lb
              elif inter==1: body=S+la+lb
              elif inter==2: body=la+lb+S
              elif inter==3:
                  body=[]
                  for l in la+lb: body+= [l, S[len(body)%2]]
              else: body=la[:1]+S+la[1:]+lb[:1]+S+lb[1:]
              if n%7: n+=1; continue   # subsample in this probe only
              c=parse(mk(tracks={"ExpertSingle":body})); n+=1
              ev=c[G][X].note_events
              assert [(e.tick,e.note.value) for e in ev]==[(0,tuple(int(i in a) for i in range(5))),(gap,tuple(int(i in b) for i in range(5)))],(a,b,body)
print("C02 probe ok",n//7,time.time()-t0)
# C18 fragments exhaustive depth<=3
frags=['[Song]','[SyncTrack]','[Events]','[ExpertSingle]','[Foo]','{','}','  Resolution = 192','  Resolution = 0','  Player2 = x','  0 = TS 4','  0 = TS 0 63','  0 = B 120000','  0 = B 0','  5 = B 1','  99999999 = B 99999999','  7 = A 99999999','  0 = E "section a"','  0 = N 0 0','  0 = N 5 0','  0 = N 7 99999999','  4 = S 2 0','  8 = E solo','','garbage','[',']','[]']
errs=collections.Counter(); t0=time.time(); n=0
for L in range(0,4):
    for seq in itertools.product(frags,repeat=L):
        n+=1
        try: c=parse("\n".join(seq)); str(c); repr(c); errs['chart']+=1
        except (ValueError,RegexNotMatchError,MissingRequiredField) as e: errs[type(e).__name__]+=1
        except Exception as e: errs['ESCAPE '+type(e).__name__]+=1; print(seq)
print("C18 frag",n,errs,time.time()-t0)
