from h import *
from datetime import timedelta
import itertools, time, collections
DI=[(d,i) for d in Difficulty for i in Instrument]
names={d.value+i.value:(i,d) for d,i in DI}
assert len(names)==40
# C06 routing: singles, pairs with distinct bodies
n=0
hdrs=list(names)
for k,h in enumerate(hdrs):
    c=parse(mk(tracks={h:[f"{k} = N {k%5} {k}"]})); n+=1
    i,d=names[h]
    assert list(c.instrument_tracks)==[i] and list(c[i])==[d]
    t=c[i][d]; assert (t.instrument,t.difficulty,t.header_tag)==(i,d,h) and t.note_events[0].tick==k
for (ka,a),(kb,b) in itertools.combinations(enumerate(hdrs),2):
    c=parse(mk(tracks={a:[f"{ka} = N 0 0"],b:[f"{kb} = N 1 0"]})); n+=1
    got={(i,d):t.note_events[0].tick for i,dd in c.instrument_tracks.items() for d,t in dd.items()}
    assert got=={names[a]:ka,names[b]:kb}
c=parse(mk(tracks={h:[f"{k} = N 0 0"] for k,h in enumerate(hdrs)})); n+=1
assert {(i,d):t.note_events[0].tick for i,dd in c.instrument_tracks.items() for d,t in dd.items()}=={names[h]:k for k,h in enumerate(hdrs)}
print("C06 routing ok",n)
# C13 selection
U=["ExpertSingle","HardSingle","ExpertDoubleBass","EasyDrums"]; absent=(Instrument.KEYS,Difficulty.MEDIUM)
n=0
for fm in range(16):
    tracks={h:[f"{j} = N {j} {j}",f"{j+1} = S 2 3"] for j,h in enumerate(U) if fm>>j&1}
    txt=mk(tracks=tracks,events=['0 = E "x"'])
    full=parse(txt)
    pairs=[names[h] for h in U]+[absent]
    for sm in range(32):
        sel=[p for j,p in enumerate(pairs) if sm>>j&1]
        for form in (list,tuple):
            c=parse(txt,want_tracks=form(sel)); n+=1
            got={(i,d):t for i,dd in c.instrument_tracks.items() for d,t in dd.items()}
            exp={names[h]:full[names[h][0]][names[h][1]] for h in tracks if names[h] in sel}
            assert got==exp,(fm,sm)
            assert c.metadata==full.metadata and c.sync_track==full.sync_track and c.global_events_track==full.global_events_track
    c=parse(txt,want_tracks=None); assert c==full
print("C13 ok",n)
# invalid unselected section
txt=mk(tracks={"ExpertSingle":["0 = N 0 0"],"HardSingle":["0 = N 5 0"]})
try: parse(txt); print("no error?!")
except ValueError: pass
c=parse(txt,want_tracks=[(Instrument.GUITAR,Difficulty.EXPERT)]); print("C13 invalid-unselected ok", list(c[Instrument.GUITAR]))
# C08 TS/A grid
n=0
for u in list(range(0,65))+[10**k-1 for k in (3,6,9,12,18)]:
    for l in [None]+list(range(0,17)):
        line=f"0 = TS {u}"+("" if l is None else f" {l}")
        c=parse(mk(sync=[line,"0 = B 120000"])); n+=1
        e=c.sync_track.time_signature_events[0]
        assert (e.upper_numeral,e.lower_numeral)==(u,4 if l is None else 2**l)
for us in [0,1,999999,10**6]+[10**k+d for k in range(1,16) for d in (-1,0,1)]:
    c=parse(mk(sync=["0 = TS 4","0 = B 120000",f"007 = A {us}"])); n+=1
    a=c.sync_track.anchor_events[0]
    assert a.tick==7 and a.timestamp==timedelta(microseconds=us)
for td in ['0','00','7','12345678','123456789012345','000000000000123']:
    c=parse(mk(res=960,sync=["0 = TS 4","0 = B 1000000000",f"{td} = TS 3",f"{td} = A 5"]+([f"{td} = B 5000"] if int(td)>0 else []))); n+=1
    assert c.sync_track.time_signature_events[1].tick==int(td) and c.sync_track.anchor_events[0].tick==int(td)
print("C08 TS/A ok",n)
