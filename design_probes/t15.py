from h import *
import itertools, time
G=Instrument.GUITAR; X=Difficulty.EXPERT
# C03 prototype: all 1023 lane/length patterns, single note + flags, map with tempo change inside sustain
t0=time.time(); n=0
for pat in itertools.product((None,0,3,5),repeat=5):
    if all(p is None for p in pat): continue
    for flags in ((),(6,),):
        body=[f"10 = N {i} {l}" for i,l in enumerate(pat) if l is not None]+[f"10 = N {f} 9" for f in flags]
        c=parse(mk(sync=("0 = TS 4","0 = B 120000","12 = B 60000"),tracks={"ExpertSingle":body}))
        e=c[G][X].note_events[0]; n+=1
        act=[l for l in pat if l is not None]
        exp = act[0] if len(set(act))==1 else tuple(pat)
        assert e.sustain==exp,(pat,e.sustain)
        assert e.longest_sustain==max(act) and e.end_tick==10+max(act)
        assert e.end_timestamp==c.sync_track.bpm_events.timestamp_at_tick_no_optimize_return(e.end_tick)>=e.timestamp
        assert c[G][X].last_note_end_timestamp==e.end_timestamp
print("C03 ok",n,time.time()-t0)
# C04 prototype: all pairs, flags, distances for a few resolutions (unpacked)
combos=[tuple(i for i in range(5) if m>>i&1) for m in range(32)]
def lines(t,combo,flags):
    if not combo: L=[f"{t} = N 7 0"]
    else: L=[f"{t} = N {i} 0" for i in combo]
    return L+[f"{t} = N {f} 0" for f in flags]
t0=time.time(); n=0; hist=collections.Counter() if False else {}
import collections; hist=collections.Counter()
for res in (1,2,4,5,100,192):
    thr=(res+1)//3
    for d in sorted({1,max(1,thr-1),max(1,thr),thr+1,3*thr+5}):
        for fl in ((),(5,),(6,),(5,6)):
            # pack: eulerian-ish: simple all pairs sequence a,b,a,b? use unpacked pairs in one track separated by big gaps
            body=[]; exp=[]; t=0
            for a in combos:
                for b in combos:
                    body+=lines(t,a,()); body+=lines(t+d,b,fl)
                    nat = (len(b)<=1) and (a!=b) and d<=thr
                    st = 'TAP' if 6 in fl else ('HOPO' if nat!=(5 in fl) else 'STRUM')
                    exp.append(st); t+=d+10*res+50
            c=parse(mk(res=res,tracks={"ExpertSingle":body}))
            ev=c[G][X].note_events
            got=[ev[2*i+1].hopo_state.name for i in range(len(exp))]
            n+=len(exp)
            for i,(g,x) in enumerate(zip(got,exp)):
                hist[g]+=1
                assert g==x,(res,d,fl,combos[i//32],combos[i%32],g,x)
print("C04 ok",n,hist,time.time()-t0)
