from h import *
def ev(lines):
    try: c=parse(mk(events=lines))
    except Exception as e: return f"EXC {type(e).__name__}: {e}"
    g=c.global_events_track
    return {k:[(e.tick,e.value) for e in getattr(g,k)] for k in ("text_events","section_events","lyric_events")}
logging.getLogger('chartparse').setLevel(logging.WARNING)
print(ev(['1 = E "lyric a"','2 = E "section b c"','3 = E "phrase_start"','4 = E "lyric"','5 = E "lyric "','6 = E "lyrical"','7 = E "section"','8 = E "lyric a"b" c"','9 = E "a"b"','10 = E ""','11 = E "lyric é日"', '12 = E " lyric x"', '13 = E "Lyric x"', '14 = E "lyric x" ', '15 = E "lyric x " "', '16 = E "section lyric y"','17 = E solo', '18 = E "lyric  two"']))
def md(lines):
    try: c=parse(mk(song_extra=lines))
    except Exception as e: return f"EXC {type(e).__name__}: {e}"
    m=c.metadata
    return {k:v for k,v in vars(m).items() if v is not None}
print(md(['Name = "a"b"','Artist = "Name = zz"','Charter =  x','Album = "  pad  "  ','Year = ", 2018"','Offset = "5"','Difficulty = 3','Player2 = rhythm','Genre = ""','MediaType = """', 'MusicStream = x = y', 'GuitarStream = "a" "']))
print(md(['Player2 = guitar']))
print(md(['Player2 = "bass"']))
print(md(['Name = x','Name = y', 'Offset = -3','PreviewStart = 1.5', 'name = lower']))
print(md(['  Resolution = 480']))
