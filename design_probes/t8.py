from h import *
import random, collections, traceback
from chartparse.exceptions import *
random.seed(5)
frags=['[Song]','[SyncTrack]','[Events]','[ExpertSingle]','[EasyDrums]','[Foo]','{','}','  Resolution = 192','  Resolution = 0','  Resolution = 1','  Offset = 0','  Player2 = bass','  Player2 = x','  Name = "a"','  0 = TS 4','  0 = TS 4 3','  0 = TS 0 63','  0 = B 120000','  0 = B 0','  0 = B 1','  10 = B 99999999','  5 = B 1118','  99999999 = B 1','  0 = A 0','  7 = A 99999999','  0 = E "section a"','  3 = E "lyric b"','  9 = E "x"','  0 = N 0 0','  0 = N 5 0','  0 = N 6 0','  0 = N 7 99999999','  99999999 = N 4 99999999','  4 = N 1 3','  4 = N 2 5','  4 = S 2 0','  2 = S 2 99999999','  8 = E solo','','garbage','  = ','[',']','[]','  12 = N 3','  00 = B 000', '  3 = TS 99999999 5']
errs=collections.Counter(); ok=0; samples={}
def render(c):
    str(c); repr(c)
    for ev in list(c.sync_track.bpm_events)+list(c.sync_track.time_signature_events)+list(c.sync_track.anchor_events)+list(c.global_events_track.text_events)+list(c.global_events_track.section_events)+list(c.global_events_track.lyric_events):
        str(ev); repr(ev)
    for i,dd in c.instrument_tracks.items():
        for d,t in dd.items():
            str(t); repr(t)
            for ev in list(t.note_events)+list(t.star_power_events)+list(t.track_events): str(ev); repr(ev)
base=mk(sync=("0 = TS 4","0 = B 120000","50 = B 60000"),events=['0 = E "section a"'],tracks={"ExpertSingle":["0 = N 0 0","60 = N 1 10","60 = N 2 0","70 = S 2 10"]}).split("\n")
for it in range(300000):
    if it%2==0:
        L=[random.choice(frags) for _ in range(random.randint(0,14))]
    else:
        L=list(base)
        for _ in range(random.randint(1,3)):
            op=random.randint(0,3); 
            if not L: break
            i=random.randrange(len(L))
            if op==0: del L[i]
            elif op==1: L.insert(i,L[i])
            elif op==2: j=random.randrange(len(L)); L[i],L[j]=L[j],L[i]
            else: L[i]=random.choice(frags)
    txt="\n".join(L)
    try:
        c=parse(txt); render(c); ok+=1
    except (ValueError,RegexNotMatchError,MissingRequiredField) as e:
        errs[type(e).__name__]+=1
    except Exception as e:
        k=type(e).__name__
        errs[k]+=1
        if k not in samples: samples[k]=(txt,traceback.format_exc())
print(ok,errs)
for k,(t,tb) in samples.items(): print("=====",k); print(t); print(tb[-600:])
