from h import *
import itertools, time, collections, logging
G=Instrument.GUITAR; X=Difficulty.EXPERT
class Cnt(logging.Handler):
    def __init__(self): super().__init__(); self.n=0; self.msgs=[]
    def emit(self, r): self.n+=1; self.msgs.append((r.name,r.getMessage()))
H=Cnt(); lg=logging.getLogger('chartparse'); lg.addHandler(H); lg.setLevel(logging.WARNING); lg.propagate=False
def obs(c):
    out={'ts':[(e.tick,e.timestamp,e.upper_numeral,e.lower_numeral) for e in c.sync_track.time_signature_events],'b':[(e.tick,e.timestamp,e.bpm) for e in c.sync_track.bpm_events],'a':[(e.tick,e.timestamp) for e in c.sync_track.anchor_events]}
    g=c.global_events_track
    for k in ('text_events','section_events','lyric_events'): out[k]=[(e.tick,e.timestamp,e.value) for e in getattr(g,k)]
    for i,dd in c.instrument_tracks.items():
        for d,t in dd.items():
            out[(i,d)]=([(e.tick,e.timestamp,e.note.value,e.sustain,e.hopo_state,e.star_power_data,e.end_timestamp) for e in t.note_events],[(e.tick,e.sustain,e.timestamp) for e in t.star_power_events],[(e.tick,e.value,e.timestamp) for e in t.track_events])
    return out
def P(**kw):
    H.n=0
    c=parse(mk(**kw)); return obs(c),H.n
base=dict(sync=["0 = TS 4","0 = B 120000","5 = A 100","10 = B 90000","10 = TS 3 3"],events=['0 = E "section a"','5 = E "lyric b"','12 = E "x"'],tracks={"ExpertSingle":["0 = N 0 0","0 = N 1 4","3 = S 2 10","4 = E solo","12 = N 7 0","12 = N 6 0"]})
o0,w0=P(**base); print("base warnings",w0)
garb={'sync':['','garbage','0 = N 0 0','0 = E "x"','0 = B','0 = TS','5 = B -3','0 = B 1.5'],'events':['','garbage','0 = E solo','0 = B 120000','0 = E "a"b"','0 = N 0 0'],'tracks':['','garbage','2 = S 64 5','2 = N 8 0','2 = E two words','0 = B 120000','0 = E "section x y"','2 = S 2','2 = N 0']}
n=0
for sec in garb:
    lines=base[sec] if sec!='tracks' else base['tracks']['ExpertSingle']
    npos=len(lines)+1
    for g in garb[sec]:
        for mask in range(1,1<<npos):
            for mult in (1,2):
                new=[]; k=0
                for i in range(npos):
                    if mask>>i&1: new+= [g]*mult; k+=mult
                    if i<len(lines): new.append(lines[i])
                kw=dict(base)
                if sec=='tracks': kw['tracks']={"ExpertSingle":new}
                else: kw[sec]=new
                o,w=P(**kw); n+=1
                assert o==o0,(sec,g,mask)
                assert w==w0+k,(sec,g,mask,w,k)
print("C14 ok",n)
