import re, re._parser as sp, re._constants as sc, itertools, collections
MAXR=sc.MAXREPEAT
SIGMA=[chr(c) for c in range(32,127)]+['\t','é','日','♪']
def cat_pred(cat):
    n=str(cat)
    if n=='CATEGORY_DIGIT': return lambda ch: ch.isdecimal()
    if n=='CATEGORY_NOT_DIGIT': return lambda ch: not ch.isdecimal()
    if n=='CATEGORY_SPACE': return lambda ch: ch.isspace()
    if n=='CATEGORY_NOT_SPACE': return lambda ch: not ch.isspace()
    if n=='CATEGORY_WORD': return lambda ch: ch.isalnum() or ch=='_'
    if n=='CATEGORY_NOT_WORD': return lambda ch: not(ch.isalnum() or ch=='_')
    raise NotImplementedError(n)
def atom_set(op,av):
    if op is sc.LITERAL: return frozenset(c for c in SIGMA if ord(c)==av)
    if op is sc.NOT_LITERAL: return frozenset(c for c in SIGMA if ord(c)!=av)
    if op is sc.ANY: return frozenset(c for c in SIGMA if c!='\n')
    if op is sc.IN:
        neg=False; preds=[]
        for o,a in av:
            if o is sc.NEGATE: neg=True
            elif o is sc.LITERAL: preds.append(lambda ch,a=a: ord(ch)==a)
            elif o is sc.RANGE: preds.append(lambda ch,a=a: a[0]<=ord(ch)<=a[1])
            elif o is sc.CATEGORY: preds.append(cat_pred(a))
            else: raise NotImplementedError(o)
        return frozenset(c for c in SIGMA if any(p(c) for p in preds)!=neg)
    return None
class NFA:
    def __init__(self): self.eps=collections.defaultdict(set); self.tr=collections.defaultdict(list); self.n=0
    def new(self): self.n+=1; return self.n-1
def build(nfa, items, start):
    cur=start
    for op,av in items:
        s=atom_set(op,av)
        if s is not None:
            nx=nfa.new(); nfa.tr[cur].append((s,nx)); cur=nx
        elif op is sc.SUBPATTERN:
            cur=build(nfa, av[3], cur)
        elif op in (sc.MAX_REPEAT, sc.MIN_REPEAT):
            lo,hi,sub=av
            for _ in range(lo): cur=build(nfa, sub, cur)
            if hi==MAXR:
                loop=nfa.new(); nfa.eps[cur].add(loop); end=build(nfa, sub, loop); nfa.eps[end].add(loop); cur=loop
            else:
                ends=[cur]
                for _ in range(hi-lo):
                    cur=build(nfa, sub, cur); ends.append(cur)
                fin=nfa.new()
                for e in ends: nfa.eps[e].add(fin)
                cur=fin
        elif op is sc.BRANCH:
            fin=nfa.new()
            for alt in av[1]:
                s0=nfa.new(); nfa.eps[cur].add(s0); e=build(nfa, alt, s0); nfa.eps[e].add(fin)
            cur=fin
        elif op is sc.AT:
            if str(av) in ('AT_BEGINNING','AT_END','AT_BEGINNING_STRING','AT_END_STRING'): pass  # edges only (asserted by caller)
            else: raise NotImplementedError(av)
        else: raise NotImplementedError(op)
    return cur
def compile_re(pattern, full=True):
    tree=list(sp.parse(pattern))
    # re.match semantics: anchored at start; require $ at end else any suffix allowed
    anchored_end = bool(tree) and tree[-1][0] is sc.AT and str(tree[-1][1]) in ('AT_END','AT_END_STRING')
    nfa=NFA(); s=nfa.new(); e=build(nfa,tree,s)
    if not anchored_end:
        loop=nfa.new(); nfa.eps[e].add(loop); nfa.tr[loop].append((frozenset(SIGMA),loop)); e=loop
    nfa.start=s; nfa.accept=e
    return nfa
def closure(nfa, S):
    st=list(S); seen=set(S)
    while st:
        x=st.pop()
        for y in nfa.eps.get(x,()):
            if y not in seen: seen.add(y); st.append(y)
    return frozenset(seen)
def step(nfa,S,ch):
    out=set()
    for x in S:
        for s,nx in nfa.tr.get(x,()):
            if ch in s: out.add(nx)
    return closure(nfa,out)
def classes(nfas):
    sets=[s for n in nfas for lst in n.tr.values() for s,_ in lst]
    sig=collections.defaultdict(list)
    for c in SIGMA: sig[tuple(c in s for s in sets)].append(c)
    return [v for v in sig.values()]
def product(nfas, on_state, maxstates=10**6):
    cl=classes(nfas); reps=[c[0] for c in cl]
    init=tuple(closure(n,{n.start}) for n in nfas)
    seen={init:""}; q=collections.deque([init]); trans=0
    while q:
        st=q.popleft(); w=seen[st]
        on_state(st,w,tuple(n.accept in s for n,s in zip(nfas,st)))
        for ch in reps:
            nx=tuple(step(n,s,ch) for n,s in zip(nfas,st)); trans+=1
            if nx not in seen:
                seen[nx]=w+ch; q.append(nx)
    return len(seen),trans,len(cl)
def accepts(nfa,s):
    S=closure(nfa,{nfa.start})
    for ch in s: S=step(nfa,S,ch)
    return nfa.accept in S
