import sys; sys.path.insert(0,'/verif/design_probes')
from h import *
from fractions import Fraction as F
import itertools, time
from multiprocessing import Pool
R=[1,2,3,7,96,100,192,480,960]
N=[1,999,1000,1001,59999,120000,120001,333333,99999999,10**9,1118,20548]
GAPS=[1,2,3,191,192,193,1000]
def exact(tempo,res,tick):
    t=F(0)
    for i,(tk,n) in enumerate(tempo):
        nxt=tempo[i+1][0] if i+1<len(tempo) else None
        if nxt is not None and nxt<=tick: t+=F((nxt-tk)*60*10**9,n*res)
        else: return t+F((tick-tk)*60*10**9,n*res), i
def work(args):
    res,k=args
    worst=F(-1); cnt=0; rej=0; over=0; wc=None
    for ns in itertools.product(N,repeat=k):
        for gaps in itertools.product(GAPS if k<3 else [1,2,192,1000],repeat=k-1):
            ticks=[0]
            for g in gaps: ticks.append(ticks[-1]+g)
            tempo=list(zip(ticks,ns))
            try: c=parse(mk(res=res,sync=["0 = TS 4"]+[f"{t} = B {n}" for t,n in tempo]))
            except ValueError: rej+=1; continue
            be=c.sync_track.bpm_events
            probes=sorted({0,1}|{t+d for t in ticks for d in (-1,0,1) if t+d>=0}|{ticks[-1]+d for d in (191,10**4,10**6)})
            for q in probes:
                ex,seg=exact(tempo,res,q)
                if ex>=10**12: continue
                got=be.timestamp_at_tick_no_optimize_return(q)
                us=(got.days*86400+got.seconds)*10**6+got.microseconds
                slack=abs(us-ex)-F(seg+1,2); cnt+=1
                if slack>0: over+=1
                if slack>worst: worst=slack; wc=(res,tempo,q)
    return cnt,rej,over,float(worst),wc
if __name__=='__main__':
    t0=time.time()
    jobs=[(r,k) for k in (1,2,3) for r in R]
    with Pool(16) as p: out=p.map(work,jobs)
    print("evals",sum(o[0] for o in out),"rejected maps",sum(o[1] for o in out),"strictly over 0.5/seg",sum(o[2] for o in out),"worst excess us",max(o[3] for o in out),time.time()-t0)
    print(max(out,key=lambda o:o[3])[4])
