from h import *
import time, cProfile, pstats
def bench(txt,n=3000):
    t=time.time()
    for _ in range(n): parse(txt)
    return (time.time()-t)/n*1e6
print("empty", bench(mk()))
print("1 track 2 lines", bench(mk(tracks={"ExpertSingle":["0 = N 0 0","5 = N 1 0"]})))
body=[f"{t} = N {t%5} 0" for t in range(0,1000)]
print("1000 notes", bench(mk(tracks={"ExpertSingle":body}),n=30))
pr=cProfile.Profile(); pr.enable()
for _ in range(2000): parse(mk())
pr.disable(); pstats.Stats(pr).sort_stats('cumtime').print_stats(14)
