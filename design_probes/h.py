import sys, io, logging
sys.path.insert(0, '/repo')
from chartparse.chart import Chart
from chartparse.instrument import *
from chartparse.sync import *
from chartparse.globalevents import *
from chartparse.metadata import *
import chartparse.track, chartparse.tick
logging.getLogger('chartparse').setLevel(logging.ERROR)
def mk(res=192, sync=("0 = TS 4","0 = B 120000"), events=(), tracks=None, song_extra=(), nl="\n"):
    L=["[Song]","{",f"  Resolution = {res}"]+["  "+s for s in song_extra]+["}","[SyncTrack]","{"]+["  "+s for s in sync]+["}","[Events]","{"]+["  "+s for s in events]+["}"]
    for name, body in (tracks or {}).items():
        L += [f"[{name}]","{"]+["  "+s for s in body]+["}"]
    return nl.join(L)+nl
def parse(text, **kw):
    return Chart.from_file(io.StringIO(text), **kw)
