import subprocess, json, sys, collections, time
from concurrent.futures import ThreadPoolExecutor
root=sys.argv[1]
M=['chartparse']+['chartparse.'+m for m in 'chart event exceptions globalevents hints instrument metadata sync tick time track util'.split()]
def run(hist):
    r=subprocess.run(['/venv/bin/python','/verif/design_probes/imp_child.py',root,','.join(hist)],capture_output=True,text=True)
    return json.loads(r.stdout)
t=time.time()
init=run([])
seen={(tuple(init['mods']),init['h']):[]}
frontier=[[]]; trans=0; fails=collections.Counter()
ex=ThreadPoolExecutor(16)
while frontier:
    jobs=[(h,m) for h in frontier for m in M]
    res=list(ex.map(lambda hm: run(hm[0]+[hm[1]]), jobs))
    nf=[]
    for (h,m),r in zip(jobs,res):
        trans+=1
        if r['out'][-1]!='ok': fails[(m,r['out'][-1])]+=1
        k=(tuple(r['mods']),r['h'])
        if k not in seen:
            seen[k]=h+[m]; nf.append(h+[m])
    frontier=nf
    print(len(seen),trans,len(frontier),time.time()-t, flush=True)
print(fails)
full=[k for k in seen if len(k[0])==13]
print("full states",len(full))
