from h import *
from fractions import Fraction as F
import random, itertools
random.seed(1)
def exact_us(tempo, res, tick):
    # tempo: list of (tick, n) ; returns exact microseconds Fraction
    t=F(0)
    for i,(tk,n) in enumerate(tempo):
        nxt = tempo[i+1][0] if i+1<len(tempo) else None
        if nxt is not None and nxt<=tick:
            t += F((nxt-tk)*60*1000*10**6, n*res)
        else:
            t += F((tick-tk)*60*1000*10**6, n*res); return t, i
worst=F(0); worstcase=None; cnt=0; skipped=0
bad=0
for trial in range(30000):
    res=random.choice([1,2,3,7,96,100,192,480,960,random.randint(1,2000)])
    k=random.randint(1,6)
    ticks=sorted(random.sample(range(1,5000),k-1)); ticks=[0]+ticks
    ns=[random.choice([1,2,999,1000,1001,120000,random.randint(1,10**9),random.randint(1,400000)]) for _ in range(k)]
    tempo=list(zip(ticks,ns))
    sync=["0 = TS 4"]+[f"{t} = B {n}" for t,n in tempo]
    try:
        c=parse(mk(res=res,sync=sync))
    except ValueError as e:
        skipped+=1; continue
    be=c.sync_track.bpm_events
    for q in list(ticks)+[t-1 for t in ticks if t>0]+[t+1 for t in ticks]+[random.randint(0,20000) for _ in range(5)]:
        ex,seg=exact_us(tempo,res,q)
        if ex>10**12: continue
        got=be.timestamp_at_tick_no_optimize_return(q)
        us=got.days*86400*10**6+got.seconds*10**6+got.microseconds
        err=abs(us-ex)
        cnt+=1
        rel=err/(seg+1)
        if rel>worst: worst=rel; worstcase=(res,tempo,q,float(ex),us)
        if rel>F(1,2): bad+=1
print(cnt,skipped,bad,float(worst),worstcase)
