from h import *
import itertools, time, collections
from datetime import timedelta
from fractions import Fraction as Fr
G=Instrument.GUITAR; X=Difficulty.EXPERT
sync=("0 = TS 4","0 = B 120000","50 = B 60000","100 = B 333333")
body=["10 = N 0 0","50 = N 1 200","51 = N 2 0","99 = N 0 0","100 = N 3 0","130 = N 4 5"]
c=parse(mk(res=100,sync=sync,tracks={"ExpertSingle":body,"HardSingle":["3 = S 2 4"]}))
tr=c[G][X]; be=c.sync_track.bpm_events; q=be.timestamp_at_tick_no_optimize_return
nt=[e.timestamp for e in tr.note_events]
us=timedelta(microseconds=1)
def oracle(s,e):
    if (e-s)<=timedelta(0): return 'VE'
    cnt=sum(1 for t in nt if s<=t<=e)
    return Fr(cnt*10**6, (e-s)//us)
n=0
ticks=sorted({0,200,400}|{e.tick+d for e in tr.note_events for d in (-1,0,1)})
def run(*a):
    try: return c.notes_per_second(G,X,*a)
    except ValueError: return 'VE'
def cmp(got,exp):
    if exp=='VE' or got=='VE': return got==exp
    return abs(Fr(got)-exp)<=exp*Fr(1,10**12)+Fr(1,10**15)
assert cmp(run(),oracle(timedelta(0),tr.last_note_end_timestamp)); 
for s in ticks:
    assert cmp(run(s),oracle(q(s),tr.last_note_end_timestamp)),(s,); n+=1
    for e in ticks:
        assert cmp(run(s,e),oracle(q(s),q(e))),(s,e,run(s,e),oracle(q(s),q(e))); n+=1
times=sorted({timedelta(0)}|{t+d*us for t in nt for d in (-1,0,1) if t+d*us>=timedelta(0)})
for s in times:
    assert cmp(run(s),oracle(s,tr.last_note_end_timestamp)); n+=1
    for e in times:
        assert cmp(run(s,e),oracle(s,e)); n+=1
print("C16 ok",n, tr.last_note_end_timestamp, max(e.end_timestamp for e in tr.note_events))
for a in ((Instrument.BASS,X),(G,Difficulty.EASY),(G,Difficulty.HARD)):
    try: c.notes_per_second(*a); print("no error",a)
    except ValueError as e: print("VE",a)
    except Exception as e: print(type(e),a)
print(dict(c.instrument_tracks).keys())
