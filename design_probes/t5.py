from h import *
import sys, time, threading
txt = mk(tracks={"ExpertSingle":["0 = N 0 0","0 = N 1 5","96 = N 2 0","96 = N 5 0","100 = S 2 50","120 = E solo"]}, events=['0 = E "section a"','5 = E "lyric b"'], sync=("0 = TS 4","0 = B 120000","50 = B 90000"))
cnt={'line':0,'call':0}
files=set()
def tracer(frame, event, arg):
    fn=frame.f_code.co_filename
    if '/repo/chartparse/' not in fn: return None
    if event=='call': cnt['call']+=1
    def local(frame, event, arg):
        if event=='line': cnt['line']+=1
        return local
    return local
sys.settrace(tracer)
t=time.time(); parse(txt); dt=time.time()-t
sys.settrace(None)
print(cnt, dt)
t=time.time(); parse(txt); print(time.time()-t)
# minimal chart
txt2 = mk(tracks={"ExpertSingle":["0 = N 0 0","0 = N 1 5"]})
cnt={'line':0,'call':0}
sys.settrace(tracer); parse(txt2); sys.settrace(None); print(cnt)
