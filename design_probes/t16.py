from h import *
import itertools, time, collections
from datetime import timedelta
G=Instrument.GUITAR; X=Difficulty.EXPERT
# C11 table
n=0
for k in (1,2,3,4):
    for gaps in itertools.product((1,2,5),repeat=k-1):
        ticks=[0]
        for g in gaps: ticks.append(ticks[-1]+g)
        c=parse(mk(sync=["0 = TS 4"]+[f"{t} = B {120000+7*i}" for i,t in enumerate(ticks)]))
        be=c.sync_track.bpm_events
        for q in range(0,ticks[-1]+4):
            ref=be.timestamp_at_tick(q)
            gi=max(i for i,t in enumerate(ticks) if t<=q)
            assert ref[1]==gi
            for h in range(0,k+1):
                n+=1
                try: r=be.timestamp_at_tick(q,start_iteration_index=h)
                except ValueError: r='VE'
                assert (r==ref) if h<=gi else (r=='VE'),(ticks,q,h,r,ref)
print("C11 table ok",n)
# C11 sequences any order
T=(0,1,4,5,6,9,10,11,20)
sync=("0 = TS 4","0 = B 120000","5 = B 60000","10 = B 240000")
kinds={'TS':lambda t:("sync",f"{t} = TS 3"),'text':lambda t:("ev",f'{t} = E "x"'),'lyric':lambda t:("ev",f'{t} = E "lyric x"'),'S':lambda t:("tr",f"{t} = S 2 3"),'E':lambda t:("tr",f"{t} = E solo"),'N':lambda t:("tr",f"{t} = N 0 6")}
out=collections.Counter(); t0=time.time()
for kind,mkline in kinds.items():
    for seq in itertools.product(T,repeat=3):
        sy=list(sync); ev=[]; tr=[]
        for t in seq:
            where,l=mkline(t); {'sync':sy,'ev':ev,'tr':tr}[where].append(l)
        try:
            c=parse(mk(sync=sy,events=ev,tracks={"ExpertSingle":tr}))
        except ValueError:
            out[kind,'VE']+=1; continue
        be=c.sync_track.bpm_events; q=be.timestamp_at_tick_no_optimize_return
        evs=list(c.sync_track.time_signature_events)+list(c.global_events_track.text_events)+list(c.global_events_track.lyric_events)+list(c[G][X].star_power_events)+list(c[G][X].track_events)+list(c[G][X].note_events)
        for e in evs:
            assert e.timestamp==q(e.tick),(kind,seq,e)
            if hasattr(e,'end_timestamp'): assert e.end_timestamp==q(e.end_tick)
        out[kind,'ok']+=1
print(out, time.time()-t0)
