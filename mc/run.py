"""Launcher: python -m mc.run <Cxx> [options]."""
import importlib
import sys

from . import core


def main():
    if len(sys.argv) < 2:
        print("usage: check <Cxx> [--tier quick|thorough] [--seed N] [--replay file]", file=sys.stderr)
        return 2
    pid = sys.argv[1].upper()
    try:
        mod = importlib.import_module("mc.props." + pid.lower())
    except ModuleNotFoundError:
        print("no check for property %s" % pid, file=sys.stderr)
        return 2
    return core.main(mod, sys.argv[2:])


if __name__ == "__main__":
    sys.exit(main())
