"""Canonical observation of a parsed chart (public attributes only; DESIGN.md 2.2).

This file has no imports on purpose: its text is pasted verbatim into stand-alone replay scripts.
"""


def us(td):
    return (td.days * 86400 + td.seconds) * 10**6 + td.microseconds


# ----------------------------------------------------------------------------------------------
# observation


def _sustain(s):
    return s if isinstance(s, int) else list(s)


def obs_note(e):
    return dict(
        tick=e.tick,
        ts=us(e.timestamp),
        lanes=list(e.note.value),
        sustain=_sustain(e.sustain),
        longest=e.longest_sustain,
        end_tick=e.end_tick,
        end_ts=us(e.end_timestamp),
        hopo=e.hopo_state.name,
        sp=(e.star_power_data.star_power_event_index if e.star_power_data is not None else None),
    )


def obs_track(t):
    lne = t.last_note_end_timestamp
    return dict(
        instrument=t.instrument.name,
        difficulty=t.difficulty.name,
        header_tag=t.header_tag,
        notes=[obs_note(e) for e in t.note_events],
        phrases=[dict(tick=e.tick, ts=us(e.timestamp), sustain=e.sustain, end_tick=e.end_tick) for e in t.star_power_events],
        events=[dict(tick=e.tick, ts=us(e.timestamp), value=e.value) for e in t.track_events],
        last_note_end=(None if lne is None else us(lne)),
    )


METADATA_FIELDS = (
    "resolution offset player2 difficulty preview_start preview_end genre media_type name artist charter album "
    "year music_stream guitar_stream rhythm_stream bass_stream drum_stream drum2_stream drum3_stream "
    "drum4_stream vocal_stream keys_stream crowd_stream"
).split()


def _plain(v):
    """A metadata value as plain data; anything that is not a str / int / None is spelt out with its
    type so that a wrongly typed field is visible (and JSON-able)."""
    if v is None or type(v) in (str, int, bool, float):
        return v
    return "<%s %r>" % (type(v).__name__, v)


def obs_metadata(m):
    d = {}
    for f in METADATA_FIELDS:
        v = getattr(m, f)
        d[f] = v.name if f == "player2" and hasattr(v, "name") and type(v).__name__ == "Player2Instrument" else _plain(v)
    return d


def obs_sync(s):
    return dict(
        resolution=s.bpm_events.resolution,
        bpm=[dict(tick=e.tick, ts=us(e.timestamp), bpm=float(e.bpm).hex()) for e in s.bpm_events],
        time_signatures=[dict(tick=e.tick, ts=us(e.timestamp), upper=e.upper_numeral, lower=e.lower_numeral) for e in s.time_signature_events],
        anchors=[dict(tick=e.tick, ts=us(e.timestamp)) for e in s.anchor_events],
    )


def obs_global(g):
    f = lambda L: [dict(tick=e.tick, ts=us(e.timestamp), value=e.value) for e in L]  # noqa: E731
    return dict(text=f(g.text_events), section=f(g.section_events), lyric=f(g.lyric_events))


def obs_tracks(chart):
    out = {}
    for ins, dd in chart.instrument_tracks.items():
        for dif, t in dd.items():
            out["%s/%s" % (ins.name, dif.name)] = obs_track(t)
    return out


def observe(chart):
    """Full public observation as plain JSON-able data; the track map is a mapping (order-free)."""
    return dict(
        metadata=obs_metadata(chart.metadata),
        sync=obs_sync(chart.sync_track),
        globals=obs_global(chart.global_events_track),
        tracks=obs_tracks(chart),
        # instruments present as keys of the public map, even with no difficulty below them
        instruments=sorted(i.name for i in chart.instrument_tracks),
    )


def all_events(chart):
    """Every event object of a chart with a label, for time oracles."""
    s = chart.sync_track
    for e in s.bpm_events:
        yield "B", e
    for e in s.time_signature_events:
        yield "TS", e
    g = chart.global_events_track
    for e in g.text_events:
        yield "text", e
    for e in g.section_events:
        yield "section", e
    for e in g.lyric_events:
        yield "lyric", e
    for dd in chart.instrument_tracks.values():
        for t in dd.values():
            for e in t.star_power_events:
                yield "S", e
            for e in t.track_events:
                yield "E", e
            for e in t.note_events:
                yield "N", e


TIME_KEYS = ("ts", "end_ts", "last_note_end")


def strip_times(o):
    """Observation without tempo-derived time fields."""
    if isinstance(o, dict):
        return {k: strip_times(v) for k, v in o.items() if k not in TIME_KEYS}
    if isinstance(o, list):
        return [strip_times(x) for x in o]
    return o


def to_model_shape(obs):
    """strip_times + anchors' timestamp kept as `us` (an anchor's time is data, not tempo time)."""
    anchors = [dict(tick=a["tick"], us=a["ts"]) for a in obs["sync"]["anchors"]]
    o = strip_times(obs)
    o["sync"]["anchors"] = anchors
    return o


def parse_via(text, via="file", want=None):
    """Parse `text` through one of the public entry points.
    via: "file" (Chart.from_file on a StringIO), "path" / "path-bom" (Chart.from_filepath on a
    UTF-8 file without / with a byte-order mark), "path-str" (the path handed over as a str), "path-reuse". want: None or [(INSTRUMENT, DIFFICULTY) names]."""
    import io
    import os
    import tempfile

    from chartparse.chart import Chart
    from chartparse.instrument import Difficulty, Instrument

    kw = {} if want is None else dict(want_tracks=[(Instrument[i], Difficulty[d]) for i, d in want])
    if via == "file-tuple":  # the selection handed over as a tuple instead of a list
        kw = {k: tuple(v) for k, v in kw.items()}
        via = "file"
    if via == "file-reuse":
        # ONE selection object handed to two consecutive parses: the caller's object is the caller's - it is
        # unchanged afterwards, and the second parse sees the same selection as the first
        before = list(kw.get("want_tracks", ()))
        Chart.from_file(io.StringIO(text), **kw)
        if "want_tracks" in kw and kw["want_tracks"] != before:
            raise AssertionError("the parse changed the caller's selection list from %r to %r" % (before, kw["want_tracks"]))
        via = "file"
    if via == "file":
        return Chart.from_file(io.StringIO(text), **kw)
    if via == "file-debug":
        # the client has switched DEBUG logging on (for the package and for the root logger): what is logged, and
        # whether anybody listens, changes nothing about what is parsed
        import logging

        lg = [logging.getLogger(), logging.getLogger("chartparse")]
        old = [x.level for x in lg]
        for x in lg:
            x.setLevel(logging.DEBUG)
        try:
            return Chart.from_file(io.StringIO(text), **kw)
        finally:
            for x, lv in zip(lg, old):
                x.setLevel(lv)
    fd, path = tempfile.mkstemp(suffix=".chart")
    try:
        from pathlib import Path

        if via == "path-reuse":
            # the file's identity says nothing about its content: another chart of the SAME byte length is written
            # to the same path with the same modification time and read first; then the real text
            import re

            decoy = re.sub(r" = N ([0-4]) ", lambda m: " = N %d " % ((int(m.group(1)) + 1) % 5), text)
            decoy = re.sub(r' = E "(.)', lambda m: ' = E "' + ("Z" if m.group(1) not in 'Z"' else "Y"), decoy)
            decoy = re.sub(r" = E ([a-z])", lambda m: " = E " + ("z" if m.group(1) != "z" else "y"), decoy)
            with os.fdopen(fd, "wb") as f:
                f.write(decoy.encode("utf-8"))
            os.utime(path, (1700000000, 1700000000))
            try:
                Chart.from_filepath(Path(path), **kw)
            except Exception:  # noqa: BLE001 - the decoy's own fate is not what is observed
                pass
            with open(path, "wb") as f:
                f.write(text.encode("utf-8"))
            os.utime(path, (1700000000, 1700000000))
            return Chart.from_filepath(Path(path), **kw)
        with os.fdopen(fd, "wb") as f:
            f.write((b"\xef\xbb\xbf" if via == "path-bom" else b"") + text.encode("utf-8"))
        if via == "path-str":  # the path as a plain string, the way the README calls it
            return Chart.from_filepath(path, **kw)
        return Chart.from_filepath(Path(path), **kw)
    finally:
        os.unlink(path)


def drop_keys(o, keys):
    """Projection: the observation without the named keys (fields owned by other properties)."""
    if isinstance(o, dict):
        return {k: drop_keys(v, keys) for k, v in o.items() if k not in keys}
    if isinstance(o, list):
        return [drop_keys(x, keys) for x in o]
    return o


def model_outcome(text, via="file", want=None, drop=(), shape="model"):
    """["ok", observation] or ["err", exception class name]. shape "model": time-free observation
    (what the reference model predicts); shape "full": with all time fields (differential oracles)."""
    try:
        c = parse_via(text, via, want)
    except Exception as e:  # noqa: BLE001
        return ["err", type(e).__name__]
    o = observe(c)
    return ["ok", drop_keys(to_model_shape(o) if shape == "model" else o, drop)]
