"""E4 - preemption-bounded schedule explorer for real threads (DESIGN.md 2.1).

Two real threading.Thread objects run their bodies under a trace function that is active only in
frames of the package under test. At every scheduling point (a `line`, `opcode` or `call` event in
a package frame) the running thread consults the schedule; to switch it releases the other
thread's semaphore and blocks on its own. Exactly one thread is runnable at any time, so the
schedule is the only source of interleaving. A schedule is (first thread, ascending list of global
step numbers at which to switch); a requested switch that never happens is a hard error.
"""

from __future__ import annotations

import gc
import hashlib
import sys
import threading

from . import core


class ReplayDivergence(Exception):
    pass


class Sched:
    def __init__(self, switches, gran="line", first=0, pkg=None):
        self.switches = list(switches)
        self.gran = gran
        self.first = first
        self.pkg = pkg or core.pkg_dir()
        self.step = 0
        self.steps_by = [0, 0]
        self.sem = [threading.Semaphore(0), threading.Semaphore(0)]
        self.done = [False, False]
        self.sig = hashlib.sha1()
        self.switched_at = []
        self.fault = None  # an exception inside the scheduler itself must never leak into the code under test

    def point(self, tid, frame):
        self.step += 1
        self.steps_by[tid] += 1
        # f_lineno is None for opcodes that carry no line; f_lasti identifies the point exactly
        self.sig.update(("%d:%s:%s:%s;" % (tid, frame.f_code.co_name, frame.f_lineno, frame.f_lasti if self.gran == "opcode" else "")).encode())
        if self.switches and self.step == self.switches[0]:
            self.switches.pop(0)
            other = 1 - tid
            if not self.done[other]:
                self.switched_at.append(self.step)
                self.sem[other].release()
                self.sem[tid].acquire()

    def tracer(self, tid):
        gran, pkg, point = self.gran, self.pkg, self.point

        def safe_point(frame):
            try:
                point(tid, frame)
            except BaseException as e:  # noqa: BLE001
                if self.fault is None:
                    self.fault = e

        def local(frame, event, arg):
            if event == gran:
                safe_point(frame)
            return local

        def glob(frame, event, arg):
            if not frame.f_code.co_filename.startswith(pkg):
                return None
            if gran == "call":
                safe_point(frame)
                return None
            if gran == "opcode":
                frame.f_trace_opcodes = True
            return local

        return glob

    def run(self, bodies):
        out = [None, None]

        def thread(tid):
            self.sem[tid].acquire()
            sys.settrace(self.tracer(tid))
            try:
                out[tid] = ("ok", bodies[tid]())
            except Exception as e:  # noqa: BLE001
                out[tid] = ("exc", type(e).__name__)
            finally:
                sys.settrace(None)
                self.done[tid] = True
                if not self.done[1 - tid]:
                    self.sem[1 - tid].release()

        ts = [threading.Thread(target=thread, args=(i,)) for i in (0, 1)]
        for t in ts:
            t.start()
        self.sem[self.first].release()
        for t in ts:
            t.join(120)
            if t.is_alive():
                raise core.HarnessFault("deadlock: a thread did not finish under schedule %r" % (self.switched_at,))
        if self.fault is not None:
            raise core.HarnessFault("exception inside the scheduler: %r" % (self.fault,))
        if self.switches:
            raise ReplayDivergence("switch points %r were never reached (steps=%d)" % (self.switches, self.step))
        return out, self.step, list(self.steps_by), self.sig.hexdigest()


def package_memo_tables(prefix="chartparse"):
    """Every functools.lru_cache wrapper defined in the package (found from outside via gc)."""
    import functools

    typ = type(functools.lru_cache(lambda: None))
    return [o for o in gc.get_objects() if isinstance(o, typ) and str(getattr(o, "__module__", "")).startswith(prefix)]


def clear_memo_tables(tables):
    for t in tables:
        t.cache_clear()
