"""Thin access layer to the package under test + canonical observation (DESIGN.md 2.2).

Only public attributes are read. Imported lazily by `load()` so that an import failure of the
package is reported as a violation by the runner, not as a harness fault.
"""

from __future__ import annotations

import io
import logging

from . import core

P = None  # namespace with the package's public names after load()


class _Counter(logging.Handler):
    def __init__(self):
        super().__init__(level=logging.WARNING)
        self.n = 0

    def emit(self, record):
        self.n += 1


LOG = _Counter()


def _own_logging():
    root = logging.getLogger()
    root.handlers[:] = [LOG]


class _NS:
    pass


def load():
    """Import the package from VERIF_REPO (idempotent)."""
    global P
    if P is not None:
        return P
    core.ensure_pkg_on_path()
    _own_logging()
    import chartparse.chart as chart_mod
    import chartparse.exceptions as exc_mod
    import chartparse.globalevents as ge_mod
    import chartparse.instrument as ins_mod
    import chartparse.metadata as md_mod
    import chartparse.sync as sync_mod

    if not chart_mod.__file__.startswith(core.REPO):
        raise core.HarnessFault("chartparse imported from %s, not from %s" % (chart_mod.__file__, core.REPO))
    _own_logging()  # the package calls logging.basicConfig() on import
    ns = _NS()
    ns.Chart = chart_mod.Chart
    ns.Instrument = ins_mod.Instrument
    ns.Difficulty = ins_mod.Difficulty
    ns.NoteEvent = ins_mod.NoteEvent
    ns.StarPowerEvent = ins_mod.StarPowerEvent
    ns.TrackEvent = ins_mod.TrackEvent
    ns.HOPOState = ins_mod.HOPOState
    ns.Note = ins_mod.Note
    ns.BPMEvent = sync_mod.BPMEvent
    ns.TimeSignatureEvent = sync_mod.TimeSignatureEvent
    ns.AnchorEvent = sync_mod.AnchorEvent
    ns.TextEvent = ge_mod.TextEvent
    ns.SectionEvent = ge_mod.SectionEvent
    ns.LyricEvent = ge_mod.LyricEvent
    ns.Metadata = md_mod.Metadata
    ns.Player2Instrument = md_mod.Player2Instrument
    ns.RegexNotMatchError = exc_mod.RegexNotMatchError
    ns.MissingRequiredField = exc_mod.MissingRequiredField
    ns.UnreachableError = exc_mod.UnreachableError
    ns.G = ins_mod.Instrument.GUITAR
    ns.X = ins_mod.Difficulty.EXPERT
    ns.headers = {d.value + i.value: (i, d) for i in ins_mod.Instrument for d in ins_mod.Difficulty}
    P = ns
    return P


def parse(text, **kw):
    return P.Chart.from_file(io.StringIO(text), **kw)


def parse_counting(text, **kw):
    """(chart, number of WARNING-or-higher log records emitted during the parse)."""
    LOG.n = 0
    c = P.Chart.from_file(io.StringIO(text), **kw)
    return c, LOG.n


def outcome(text, **kw):
    """('ok', chart, warnings) or ('err', exception class name, warnings)."""
    LOG.n = 0
    try:
        c = P.Chart.from_file(io.StringIO(text), **kw)
    except Exception as e:  # noqa: BLE001 - the class is the observation
        return ("err", type(e).__name__, LOG.n)
    return ("ok", c, LOG.n)


def us(td):
    return (td.days * 86400 + td.seconds) * 10**6 + td.microseconds


def query(chart, tick):
    return us(chart.sync_track.bpm_events.timestamp_at_tick_no_optimize_return(tick))


# ----------------------------------------------------------------------------------------------
# observation


def _sustain(s):
    return s if isinstance(s, int) else list(s)


def obs_note(e):
    return dict(
        tick=e.tick,
        ts=us(e.timestamp),
        lanes=list(e.note.value),
        sustain=_sustain(e.sustain),
        longest=e.longest_sustain,
        end_tick=e.end_tick,
        end_ts=us(e.end_timestamp),
        hopo=e.hopo_state.name,
        sp=(e.star_power_data.star_power_event_index if e.star_power_data is not None else None),
    )


def obs_track(t):
    lne = t.last_note_end_timestamp
    return dict(
        instrument=t.instrument.name,
        difficulty=t.difficulty.name,
        header_tag=t.header_tag,
        notes=[obs_note(e) for e in t.note_events],
        phrases=[dict(tick=e.tick, ts=us(e.timestamp), sustain=e.sustain, end_tick=e.end_tick) for e in t.star_power_events],
        events=[dict(tick=e.tick, ts=us(e.timestamp), value=e.value) for e in t.track_events],
        last_note_end=(None if lne is None else us(lne)),
    )


METADATA_FIELDS = (
    "resolution offset player2 difficulty preview_start preview_end genre media_type name artist charter album "
    "year music_stream guitar_stream rhythm_stream bass_stream drum_stream drum2_stream drum3_stream "
    "drum4_stream vocal_stream keys_stream crowd_stream"
).split()


def obs_metadata(m):
    d = {}
    for f in METADATA_FIELDS:
        v = getattr(m, f)
        d[f] = v.name if f == "player2" and hasattr(v, "name") else v
    return d


def obs_sync(s):
    return dict(
        resolution=s.bpm_events.resolution,
        bpm=[dict(tick=e.tick, ts=us(e.timestamp), bpm=float(e.bpm).hex()) for e in s.bpm_events],
        ts=[dict(tick=e.tick, ts=us(e.timestamp), upper=e.upper_numeral, lower=e.lower_numeral) for e in s.time_signature_events],
        anchors=[dict(tick=e.tick, ts=us(e.timestamp)) for e in s.anchor_events],
    )


def obs_global(g):
    f = lambda L: [dict(tick=e.tick, ts=us(e.timestamp), value=e.value) for e in L]  # noqa: E731
    return dict(text=f(g.text_events), section=f(g.section_events), lyric=f(g.lyric_events))


def obs_tracks(chart):
    out = {}
    for ins, dd in chart.instrument_tracks.items():
        for dif, t in dd.items():
            out["%s/%s" % (ins.name, dif.name)] = obs_track(t)
    return out


def observe(chart):
    """Full public observation as plain JSON-able data; the track map is a mapping (order-free)."""
    return dict(
        metadata=obs_metadata(chart.metadata),
        sync=obs_sync(chart.sync_track),
        globals=obs_global(chart.global_events_track),
        tracks=obs_tracks(chart),
        # instruments present as keys of the public map, even with no difficulty below them
        instruments=sorted(i.name for i in chart.instrument_tracks),
    )


def all_events(chart):
    """Every event object of a chart with a label, for time oracles."""
    s = chart.sync_track
    for e in s.bpm_events:
        yield "B", e
    for e in s.time_signature_events:
        yield "TS", e
    g = chart.global_events_track
    for e in g.text_events:
        yield "text", e
    for e in g.section_events:
        yield "section", e
    for e in g.lyric_events:
        yield "lyric", e
    for dd in chart.instrument_tracks.values():
        for t in dd.values():
            for e in t.star_power_events:
                yield "S", e
            for e in t.track_events:
                yield "E", e
            for e in t.note_events:
                yield "N", e
