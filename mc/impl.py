"""Thin access layer to the package under test + canonical observation (DESIGN.md 2.2).

Only public attributes are read. Imported lazily by `load()` so that an import failure of the
package is reported as a violation by the runner, not as a harness fault.
"""

from __future__ import annotations

import io
import logging

from . import core

P = None  # namespace with the package's public names after load()


class _Counter(logging.Handler):
    def __init__(self):
        super().__init__(level=logging.WARNING)
        self.n = 0
        self.unrenderable = 0

    def emit(self, record):
        # a record only counts as a report if it can be rendered (what every real handler has to do)
        try:
            record.getMessage()
        except Exception:  # noqa: BLE001
            self.unrenderable += 1
            return
        self.n += 1


LOG = _Counter()


def _own_logging():
    root = logging.getLogger()
    root.handlers[:] = [LOG]


class _NS:
    pass


def load():
    """Import the package from VERIF_REPO (idempotent)."""
    global P
    if P is not None:
        return P
    core.ensure_pkg_on_path()
    _own_logging()
    import chartparse.chart as chart_mod
    import chartparse.exceptions as exc_mod
    import chartparse.globalevents as ge_mod
    import chartparse.instrument as ins_mod
    import chartparse.metadata as md_mod
    import chartparse.sync as sync_mod

    if not chart_mod.__file__.startswith(core.REPO):
        raise core.HarnessFault("chartparse imported from %s, not from %s" % (chart_mod.__file__, core.REPO))
    _own_logging()  # the package calls logging.basicConfig() on import
    ns = _NS()
    ns.Chart = chart_mod.Chart
    ns.Instrument = ins_mod.Instrument
    ns.Difficulty = ins_mod.Difficulty
    ns.NoteEvent = ins_mod.NoteEvent
    ns.StarPowerEvent = ins_mod.StarPowerEvent
    ns.TrackEvent = ins_mod.TrackEvent
    ns.HOPOState = ins_mod.HOPOState
    ns.Note = ins_mod.Note
    ns.BPMEvent = sync_mod.BPMEvent
    ns.TimeSignatureEvent = sync_mod.TimeSignatureEvent
    ns.AnchorEvent = sync_mod.AnchorEvent
    ns.TextEvent = ge_mod.TextEvent
    ns.SectionEvent = ge_mod.SectionEvent
    ns.LyricEvent = ge_mod.LyricEvent
    ns.Metadata = md_mod.Metadata
    ns.Player2Instrument = md_mod.Player2Instrument
    ns.RegexNotMatchError = exc_mod.RegexNotMatchError
    ns.MissingRequiredField = exc_mod.MissingRequiredField
    ns.UnreachableError = exc_mod.UnreachableError
    ns.G = ins_mod.Instrument.GUITAR
    ns.X = ins_mod.Difficulty.EXPERT
    ns.headers = {d.value + i.value: (i, d) for i in ins_mod.Instrument for d in ins_mod.Difficulty}
    P = ns
    return P


def parse(text, **kw):
    return P.Chart.from_file(io.StringIO(text), **kw)


def parse_counting(text, **kw):
    """(chart, number of WARNING-or-higher log records emitted during the parse)."""
    LOG.n = 0
    c = P.Chart.from_file(io.StringIO(text), **kw)
    return c, LOG.n


def outcome(text, **kw):
    """('ok', chart, warnings) or ('err', exception class name, warnings)."""
    LOG.n = 0
    try:
        c = P.Chart.from_file(io.StringIO(text), **kw)
    except Exception as e:  # noqa: BLE001 - the class is the observation
        return ("err", type(e).__name__, LOG.n)
    return ("ok", c, LOG.n)


from .observe_src import *  # noqa: F401,F403,E402 - us, observe, obs_*, strip_times, to_model_shape, all_events
from . import observe_src as _o  # noqa: E402

OBSERVE_SRC = open(_o.__file__, encoding="utf-8").read()


def query(chart, tick):
    return us(chart.sync_track.bpm_events.timestamp_at_tick_no_optimize_return(tick))  # noqa: F405


# ----------------------------------------------------------------------------------------------
# a single parse that does not come back (a changed decoder computing 2**99999999, a loop that no longer
# advances) is an outcome of the code under test, not a fault of the harness: it is cut off after CASE_LIMIT_S and
# surfaces as the exception CaseTimeout, which no statement allows - the case is then reported like any other
# wrong outcome instead of stalling the shard until the watchdog kills the worker.
import contextlib  # noqa: E402
import os as _os  # noqa: E402
import signal as _signal  # noqa: E402
import threading as _threading  # noqa: E402

CASE_LIMIT_S = float(_os.environ.get("VERIF_CASE_LIMIT_S", "60"))


class CaseTimeout(Exception):
    pass


def _on_alarm(signum, frame):
    raise CaseTimeout("a single parse / query ran for more than %g s" % CASE_LIMIT_S)


@contextlib.contextmanager
def limited():
    if _threading.current_thread() is not _threading.main_thread():
        yield
        return
    old = _signal.signal(_signal.SIGALRM, _on_alarm)
    _signal.setitimer(_signal.ITIMER_REAL, CASE_LIMIT_S)
    try:
        yield
    finally:
        _signal.setitimer(_signal.ITIMER_REAL, 0)
        _signal.signal(_signal.SIGALRM, old)


def _limit(fn):
    import functools

    @functools.wraps(fn)
    def wrapper(*a, **kw):
        with limited():
            return fn(*a, **kw)

    return wrapper


parse, parse_counting, outcome = _limit(parse), _limit(parse_counting), _limit(outcome)
model_outcome = _limit(_o.model_outcome)
