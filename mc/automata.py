"""E3 - recognisers as automata (DESIGN.md 2.1).

capture   : the compiled patterns the running parser tries on a line of a given section, in trial
            order, observed from outside with sys.setprofile (no private attribute is read)
translate : re._parser tree -> epsilon-NFA over SIGMA (restricted construct set, else Unsupported)
explore   : on-the-fly subset construction + BFS over the product of several NFAs, over alphabet
            classes (characters no atom of any automaton in the product distinguishes)
conform   : NFA vs the captured compiled pattern object on witnesses and on all short strings
"""

from __future__ import annotations

import collections
import io
import itertools
import re
import re._constants as sc
import re._parser as sp
import sys

from . import core, impl
from .chartgen import mk

MAXR = sc.MAXREPEAT
SIGMA = [chr(c) for c in range(32, 127)] + ["\t", "é", "日", "♪"]
SIGMA_SET = frozenset(SIGMA)


class Unsupported(Exception):
    pass


# ----------------------------------------------------------------------------------------------
# capture


def _profiled_parse(text):
    calls = []

    def prof(frame, event, arg):
        if event == "c_call" and getattr(arg, "__name__", "") in ("match", "fullmatch", "search"):
            s = getattr(arg, "__self__", None)
            if isinstance(s, re.Pattern):
                calls.append((s, arg.__name__))

    sys.setprofile(prof)
    try:
        try:
            impl.P.Chart.from_file(io.StringIO(text))
        except Exception:  # noqa: BLE001 - the calls made before the failure are still what we want
            pass
    finally:
        sys.setprofile(None)
    return calls


def _diff(a, b):
    i = 0
    while i < len(a) and i < len(b) and a[i][0] is b[i][0]:
        i += 1
    j = 0
    while j < len(a) - i and j < len(b) - i and a[-1 - j][0] is b[-1 - j][0]:
        j += 1
    return b[i : len(b) - j]


HOW = {}  # id(compiled pattern) -> "match" | "search" | "fullmatch": how the implementation applies it


def applies(p, s):
    """Whether the implementation's way of applying recogniser p (match / search / fullmatch) accepts s."""
    return bool(getattr(p, HOW.get(id(p), "match"))(s))


GARBAGE = "@@garbage@@"
_BASE = dict(sync=["0 = TS 4", "0 = B 120000"], events=['0 = E "x"'], track=["0 = N 0 0"], song=["Resolution = 192"])


def _text(**over):
    kw = dict(_BASE)
    kw.update(over)
    return mk(song=kw["song"], sync=kw["sync"], events=kw["events"], tracks={"ExpertSingle": kw["track"]})


def capture_section(sec):
    """Patterns (compiled objects) tried on an unmatched line of section `sec`, in trial order."""
    base = _profiled_parse(_text())
    withg = _profiled_parse(_text(**{sec: _BASE[sec] + [GARBAGE]}))
    d = _diff(base, withg)
    out = []
    for p, how in d:
        if HOW.setdefault(id(p), how) != how:
            raise Unsupported("one recogniser applied with re.%s and re.%s" % (HOW[id(p)], how))
        if all(p is not q for q in out):
            out.append(p)
    return out


def capture_song():
    """The distinct patterns applied to [Song] lines (in first-use order)."""
    base = _profiled_parse(_text())
    withg = _profiled_parse(_text(song=[GARBAGE] + _BASE["song"]))
    # every pattern whose number of calls grows with an extra [Song] line
    cb = collections.Counter(id(p) for p, _ in base)
    cg = collections.Counter(id(p) for p, _ in withg)
    out = []
    for p, how in withg:
        if cg[id(p)] > cb[id(p)] and all(p is not q for q in out):
            if HOW.setdefault(id(p), how) != how:
                raise Unsupported("one field recogniser applied with re.%s and re.%s" % (HOW[id(p)], how))
            out.append(p)
    return out


# ----------------------------------------------------------------------------------------------
# translation


def _cat_pred(cat):
    n = str(cat)
    table = {
        "CATEGORY_DIGIT": lambda ch: ch.isdecimal(),
        "CATEGORY_NOT_DIGIT": lambda ch: not ch.isdecimal(),
        "CATEGORY_SPACE": lambda ch: ch.isspace(),
        "CATEGORY_NOT_SPACE": lambda ch: not ch.isspace(),
        "CATEGORY_WORD": lambda ch: ch.isalnum() or ch == "_",
        "CATEGORY_NOT_WORD": lambda ch: not (ch.isalnum() or ch == "_"),
    }
    if n not in table:
        raise Unsupported(n)
    return table[n]


def _atom_set(op, av):
    if op is sc.LITERAL:
        return frozenset(c for c in SIGMA if ord(c) == av)
    if op is sc.NOT_LITERAL:
        return frozenset(c for c in SIGMA if ord(c) != av)
    if op is sc.ANY:
        return frozenset(c for c in SIGMA if c != "\n")
    if op is sc.IN:
        neg, preds = False, []
        for o, a in av:
            if o is sc.NEGATE:
                neg = True
            elif o is sc.LITERAL:
                preds.append(lambda ch, a=a: ord(ch) == a)
            elif o is sc.RANGE:
                preds.append(lambda ch, a=a: a[0] <= ord(ch) <= a[1])
            elif o is sc.CATEGORY:
                preds.append(_cat_pred(a))
            else:
                raise Unsupported(str(o))
        return frozenset(c for c in SIGMA if any(p(c) for p in preds) != neg)
    return None


class NFA:
    def __init__(self):
        self.eps = collections.defaultdict(set)
        self.tr = collections.defaultdict(list)
        self.n = 0
        self.start = self.accept = None
        self.pattern = None

    def new(self):
        self.n += 1
        return self.n - 1


def _build(nfa, items, start, top, last_index=None):
    cur = start
    items = list(items)
    for k, (op, av) in enumerate(items):
        s = _atom_set(op, av)
        if s is not None:
            nx = nfa.new()
            nfa.tr[cur].append((s, nx))
            cur = nx
        elif op is sc.SUBPATTERN:
            if av[1] or av[2]:
                raise Unsupported("inline flags")
            cur = _build(nfa, av[3], cur, False)
        elif op in (sc.MAX_REPEAT, sc.MIN_REPEAT):
            lo, hi, sub = av
            for _ in range(lo):
                cur = _build(nfa, sub, cur, False)
            if hi == MAXR:
                loop = nfa.new()
                nfa.eps[cur].add(loop)
                end = _build(nfa, sub, loop, False)
                nfa.eps[end].add(loop)
                cur = loop
            else:
                ends = [cur]
                for _ in range(hi - lo):
                    cur = _build(nfa, sub, cur, False)
                    ends.append(cur)
                fin = nfa.new()
                for e in ends:
                    nfa.eps[e].add(fin)
                cur = fin
        elif op is sc.BRANCH:
            fin = nfa.new()
            for alt in av[1]:
                s0 = nfa.new()
                nfa.eps[cur].add(s0)
                e = _build(nfa, alt, s0, False)
                nfa.eps[e].add(fin)
            cur = fin
        elif op is sc.AT:
            name = str(av)
            if top and k == 0 and name in ("AT_BEGINNING", "AT_BEGINNING_STRING"):
                pass
            elif top and k == len(items) - 1 and name in ("AT_END", "AT_END_STRING"):
                pass
            else:
                raise Unsupported("anchor %s not at the edge" % name)
        else:
            raise Unsupported(str(op))
    return cur


def compile_re(pattern, flags=0, how="match"):
    """NFA for `re.compile(pattern).match(s)` (or .search / .fullmatch) restricted to s in SIGMA* (no newline)."""
    if flags & ~re.UNICODE:
        raise Unsupported("flags %r" % flags)
    tree = list(sp.parse(pattern))
    anchored_end = how == "fullmatch" or (bool(tree) and tree[-1][0] is sc.AT and str(tree[-1][1]) in ("AT_END", "AT_END_STRING"))
    anchored_start = bool(tree) and tree[0][0] is sc.AT and str(tree[0][1]) in ("AT_BEGINNING", "AT_BEGINNING_STRING")
    nfa = NFA()
    s = nfa.new()
    if how == "search" and not anchored_start:
        # search = any prefix, then the pattern
        nfa.tr[s].append((SIGMA_SET, s))
        s2 = nfa.new()
        nfa.eps[s].add(s2)
        e = _build(nfa, tree, s2, True)
    else:
        e = _build(nfa, tree, s, True)
    if not anchored_end:
        loop = nfa.new()
        nfa.eps[e].add(loop)
        nfa.tr[loop].append((SIGMA_SET, loop))
        e = loop
    nfa.start, nfa.accept, nfa.pattern = s, e, pattern
    return nfa


def from_compiled(p):
    return compile_re(p.pattern, p.flags, HOW.get(id(p), "match"))


def closure(nfa, S):
    st, seen = list(S), set(S)
    while st:
        x = st.pop()
        for y in nfa.eps.get(x, ()):
            if y not in seen:
                seen.add(y)
                st.append(y)
    return frozenset(seen)


def step(nfa, S, ch):
    out = set()
    for x in S:
        for s, nx in nfa.tr.get(x, ()):
            if ch in s:
                out.add(nx)
    return closure(nfa, out)


def accepts(nfa, s):
    S = closure(nfa, {nfa.start})
    for ch in s:
        if ch not in SIGMA_SET:
            raise ValueError("character outside SIGMA: %r" % ch)
        S = step(nfa, S, ch)
    return nfa.accept in S


def classes(nfas):
    sets = [s for n in nfas for lst in n.tr.values() for s, _ in lst]
    sig = collections.defaultdict(list)
    for c in SIGMA:
        sig[tuple(c in s for s in sets)].append(c)
    return list(sig.values())


# ----------------------------------------------------------------------------------------------
# product exploration


class Graph:
    """Explored product: states[i] = tuple of subset-states, acc[i] = acceptance vector,
    wit[i] = shortest string reaching state i, edges[i] = list of (class representative, j)."""

    def __init__(self):
        self.states, self.acc, self.wit, self.edges, self.reps, self.nclasses = [], [], [], [], [], 0

    @property
    def transitions(self):
        return sum(len(e) for e in self.edges)


def explore(nfas, max_states=200000):
    g = Graph()
    cl = classes(nfas)
    g.reps = [c[0] for c in cl]
    g.nclasses = len(cl)
    init = tuple(closure(n, {n.start}) for n in nfas)
    index = {init: 0}
    g.states.append(init)
    g.wit.append("")
    g.acc.append(tuple(n.accept in s for n, s in zip(nfas, init)))
    g.edges.append([])
    q = collections.deque([0])
    while q:
        i = q.popleft()
        st = g.states[i]
        for ch in g.reps:
            nx = tuple(step(n, s, ch) for n, s in zip(nfas, st))
            j = index.get(nx)
            if j is None:
                j = len(g.states)
                if j >= max_states:
                    raise core.HarnessFault("product automaton exceeds %d states" % max_states)
                index[nx] = j
                g.states.append(nx)
                g.wit.append(g.wit[i] + ch)
                g.acc.append(tuple(n.accept in s for n, s in zip(nfas, nx)))
                g.edges.append([])
                q.append(j)
            g.edges[i].append((ch, j))
    return g


def completions(g, pred):
    """For every state the shortest suffix leading to a state whose acceptance vector satisfies
    pred (None if unreachable). Reverse BFS over the explored graph."""
    n = len(g.states)
    rev = [[] for _ in range(n)]
    for i, es in enumerate(g.edges):
        for ch, j in es:
            rev[j].append((ch, i))
    suffix = [None] * n
    q = collections.deque()
    for i in range(n):
        if pred(g.acc[i]):
            suffix[i] = ""
            q.append(i)
    while q:
        j = q.popleft()
        for ch, i in rev[j]:
            if suffix[i] is None:
                suffix[i] = ch + suffix[j]
                q.append(i)
    return suffix


def witnesses(g, preds):
    """One string per (transition, target predicate): shortest path to the transition's source,
    the transition's character, then the shortest completion into each target class."""
    out = []
    seen = set()
    comps = [completions(g, p) for p in preds]
    for i, es in enumerate(g.edges):
        for ch, j in es:
            for c in comps:
                if c[j] is not None:
                    w = g.wit[i] + ch + c[j]
                    if w not in seen:
                        seen.add(w)
                        out.append(w)
    return out


def short_strings(reps, L, cap=2 * 10**6):
    """Every string of length <= L over the class representatives; L is lowered until the longest layer has at
    most `cap` strings (this is the translator's self-check, its size must not depend on what was captured)."""
    while L > 1 and len(reps) ** L > cap:
        L -= 1
    for n in range(L + 1):
        for tup in itertools.product(reps, repeat=n):
            yield "".join(tup)


def conform(pattern_obj, nfa, strings):
    """NFA must agree with the captured compiled pattern on every string; -> number checked."""
    k = 0
    for s in strings:
        k += 1
        if applies(pattern_obj, s) != accepts(nfa, s):
            raise core.HarnessFault("translator disagrees with the regex engine on %r for pattern %r" % (s, pattern_obj.pattern))
    return k


class DFA:
    """Determinised single automaton for fast membership (built with explore([nfa]))."""

    def __init__(self, nfa):
        self.nfa = nfa
        self.g = explore([nfa])
        cl = classes([nfa])
        self.rep_of = {c: grp[0] for grp in cl for c in grp}
        self.delta = [dict(es) for es in self.g.edges]
        self.final = [a[0] for a in self.g.acc]

    def accepts(self, s):
        i = 0
        for ch in s:
            i = self.delta[i][self.rep_of[ch]]
        return self.final[i]


def conform_fast(pattern_obj, dfa, strings):
    k = 0
    m = getattr(pattern_obj, HOW.get(id(pattern_obj), "match"))
    for s in strings:
        k += 1
        if bool(m(s)) != dfa.accepts(s):
            raise core.HarnessFault("translator disagrees with the regex engine on %r for pattern %r" % (s, pattern_obj.pattern))
    return k
