"""C09 - global events are classified lyric / section / text with verbatim values (E3 + E1)."""

from __future__ import annotations

import itertools

from .. import automata as A
from .. import envs, blocks, e1, impl, linelang, refmodel
from ..chartgen import COMMENT_TRAPS, FORMAT_TRAPS, RAW, UNICODE_TRAPS, mk
from ..linelang import BL

ID = "C09"
LEVEL = "model_checking"
ENGINE = "E3 classification product of the captured recognisers + E1 value enumeration"
RULE = (
    "E3: product of the three captured [Events] recognisers (captured trial order, first-match) with six specification "
    "automata; in every reachable configuration the first-match class must equal the specification class (strings of any "
    "length); candidates and one witness per product transition and target class replayed on the line parsers and through an "
    "[Events] section of a real chart. E1: every text of length <= 4 over {a,\",space,=,],e-acute} behind 6 prefixes, and every "
    "ordering of <= 4 mixed-kind lines. distinct = distinct line / line sequence; non-trivial = all"
)
ASSUMPTIONS = [
    "grey (unconstrained): blanks after the closing quote; quoted text with inner quotes and no keyword (DESIGN.md 3.4)",
    "a line of lyric/section shape may only ever be claimed as lyric/section (also inside the grey zone)",
]

D = "[0-9]"
F = rf"^{BL}*{D}+ = E \""
SPEC = dict(
    ML=F + r"lyric .*\"$",
    MS=F + r"section .*\"$",
    MQ=F + r"[^\"]*\"$",
    YL=F + r"lyric .*\"" + rf"{BL}*$",
    YS=F + r"section .*\"" + rf"{BL}*$",
    YG=F + r".*\"" + rf"{BL}*$",
)
KINDS = {
    "lyric": dict(canon='0 = E "lyric a"b"', must=lambda v: v["ML"], may=lambda v: v["YL"]),
    "section": dict(canon='0 = E "section a"b"', must=lambda v: v["MS"], may=lambda v: v["YS"]),
    "text": dict(canon='0 = E "x"', must=lambda v: v["MQ"] and not v["ML"] and not v["MS"], may=lambda v: v["YG"] and not v["YL"] and not v["YS"]),
}

SCRIPT = """line = {line!r}
expected_kind, expected = {kind!r}, {expected!r}
from chartparse.exceptions import RegexNotMatchError
from chartparse.globalevents import LyricEvent, SectionEvent, TextEvent
got_kind, got = None, None
for k, cls in {order}:
    try:
        d = cls.ParsedData.from_chart_line(line)
    except RegexNotMatchError:
        continue
    got_kind, got = k, [d.tick, d.value]
    break
print("line", repr(line), "claimed by", got_kind, got, "; expected", expected_kind, expected)
sys.exit(0 if (got_kind, got) == (expected_kind, expected) else 1)
"""


def setup():
    envs.enable(16)  # E1-M: every 16th model-equality case again under every environment of mc/envs.py
    impl.load()


def plan(tier, seed):
    L = 4 if tier == "quick" else 5
    shards = [("automata", L)] + [("values", i, 4 if tier == "quick" else 5) for i in range(6)] + [("orders",), ("ticks",)]
    shards += [("blocks", B, part) for B in blocks.BLOCKS for part in range(4)]
    return dict(shards=shards, bounds=dict(alphabet_size=len(A.SIGMA), conformance_string_length=L, value_length=4 if tier == "quick" else 5), budget_s=900)


def decode(line):
    """(kind, [tick, value]) for lines whose class the statement fixes; None = not an event line;
    'grey' = unconstrained."""
    if line != line.rstrip(" \t"):
        return "grey"
    try:
        d = refmodel.read_event_line(line)
    except refmodel.OutOfDomain:
        return "grey"
    if d is None:
        return None
    return d[0], [d[1], d[2]]


def check_line(ctx, order, line, why):
    exp = decode(line)
    gk, gd = linelang.claimant("events", line, order)
    if gk == "<no-api>":
        ctx.hist["line_parser_api_unavailable(end-to-end replay only)"] += 1
        return
    got = None if gk is None else (list(gd) if isinstance(gd, tuple) else [gd.tick, gd.value])
    ctx.case(("line", line), sample=lambda: dict(line=line, expected=exp, why=why))
    ctx.evaluations += 1
    if exp == "grey":
        ctx.hist["grey"] += 1
        # even in the grey zone a lyric/section-shaped line is never a text event and vice versa
        return
    if exp is None:
        ctx.hist["not_an_event_line"] += 1
        return
    ctx.hist["class_" + exp[0]] += 1
    if gk != exp[0] or got != exp[1]:
        names = "[" + ", ".join("(%r, %s)" % (k, c.__name__) for k, c in order) + "]"
        ctx.violation("classification", dict(kind="line", line=line, expected_kind=exp[0], expected=exp[1]), "%s: line %r is claimed by %s with %r; expected %s %r" % (why, line, gk, got, exp[0], exp[1]), expected=list(exp), observed=[gk, got], script=SCRIPT.format(line=line, kind=exp[0], expected=exp[1], order=names))


def check_e2e(ctx, lines, why, sync=("0 = TS 4", "0 = B 1000000000"), song_extra=()):
    text = mk(res=960, sync=list(sync), events=lines, song_extra=list(song_extra))
    try:
        res = refmodel.model(text)
    except refmodel.OutOfDomain:
        ctx.hist["grey_end_to_end(skipped)"] += 1
        return
    ctx.case(("e2e", text), sample=lambda: dict(events_body=lines, why=why))
    ctx.evaluations += 1
    e1.check_model(ctx, "classification-end-to-end", text, res, msg="%s: [Events] body %r" % (why, lines))
    if not text.isascii() and len(text) < 4000:
        # non-ASCII text also through the by-path entry points (decoding / "cleaning" happens there)
        for via in ("path", "path-bom"):
            ctx.evaluations += 1
            e1.check_model(ctx, "classification-end-to-end", text, res, via=via, msg="%s (entry point %s): [Events] body %r" % (why, via, lines))


def run_shard(shard, ctx):
    if shard[0] == "blocks":
        blocks.sweep(ctx, "event-line-at-block-boundary", _block_text, "Events", blocks=(shard[1],), part=shard[2], parts=4, vias=("file",) if shard[1] > 8192 else ("file", "path"))
        return
    if shard[0] == "automata":
        _automata(ctx, shard[1])
    elif shard[0] == "values":
        _values(ctx, shard[1], shard[2])
    elif shard[0] == "ticks":
        _ticks(ctx)
    else:
        _orders(ctx)


def _order():
    try:
        return linelang.dispatch_order(linelang.analyse("events", KINDS, SPEC))
    except A.Unsupported:
        return linelang.kind_classes("events")


def _automata(ctx, L):
    try:
        a = linelang.analyse("events", KINDS, SPEC)
    except A.Unsupported as e:
        ctx.hist["E3_unavailable(%s): bounded string enumeration only" % e] += 1
        ctx.extra["e3"] = "unavailable: %s" % e
        return
    g = a.graph
    ctx.nodes += len(g.states)
    ctx.edges += g.transitions
    ctx.extra.update(product_states=len(g.states), product_transitions=g.transitions, alphabet_classes=g.nclasses, captured_recognisers=[p.pattern for p in a.pats], captured_order=[k or "?" for k in a.kind_of])
    ctx.extra["translator_vs_regex_engine_strings"] = linelang.conformance(a, L)
    order = linelang.dispatch_order(a)
    for what, k, w in a.candidates:
        ctx.hist["model_candidates"] += 1
        if what == "must-not-claimed":
            check_line(ctx, order, w, "product automaton: string whose class is %s not first-claimed by the %s recogniser" % (k, k))
            if len(w) < 80:
                check_e2e(ctx, [w], "product automaton counterexample (class %s)" % k)
        else:
            # claimed as k outside L_may(k): confirmed iff the real chart shows a k event for this line
            text = mk(res=960, sync=["0 = TS 4", "0 = B 1000000000"], events=[w])
            got = impl.model_outcome(text, "file", None, (), "model")
            ctx.case(("cand", w))
            ctx.evaluations += 1
            if got[0] == "ok" and got[1]["globals"][k]:
                ctx.violation("misclassified", dict(kind="e2e-kind", line=w, k=k), "line %r lies outside every shape a %s event may have, yet a %s event is produced: %r" % (w, k, k, got[1]["globals"]), expected="no %s event" % k, observed=got[1]["globals"], script=e1.script(text, "def probe(c):\n    g = c.global_events_track\n    return [len(g.%s_events)]" % k, [[0]]))
    for w in a.witnesses:
        check_line(ctx, order, w, "witness of a product transition")
        if decode(w) not in (None, "grey") and len(w) < 80:
            check_e2e(ctx, [w], "witness of a product transition")


ALPHA = ("a", '"', " ", "=", "]", "é")
PREFIXES = ("", "lyric", "lyric ", "section ", "sectionx", " lyric ")


def _values(ctx, pi, L):
    order = _order()
    pre = PREFIXES[pi]
    for n in range(L + 1):
        for tup in itertools.product(ALPHA, repeat=n):
            if ctx.out_of_time():
                return
            T = pre + "".join(tup)
            line = '%d = E "%s"' % (7 + n, T)
            check_line(ctx, order, line, "value enumeration")
            check_e2e(ctx, ["  " + line], "value enumeration")


def _ticks(ctx):
    """Tick digit strings and padding of event lines (values stay verbatim, tick decoded exactly)."""
    order = _order()
    for pad in ("", " ", "\t", "  \t"):
        for t in ("0", "7", "007", "10", "12345678", "000000000000", "98765432109876543210"):
            for text in ("lyric la la", "section S 1", "free", 'lyric "q"', "section ", ""):
                line = '%s%s = E "%s"' % (pad, t, text)
                check_line(ctx, order, line, "tick digit string / padding")
                if len(t) <= 8:
                    check_e2e(ctx, [line], "tick digit string / padding")


def _orders(ctx):
    pool = ['1 = E "lyric la"', '2 = E "section s one"', '3 = E "free text"', '4 = E "lyric li "', '5 = E "section \\"q\\""', '6 = E "lyricx"']
    pool[4] = '5 = E "section "q""'
    for n in range(1, 5):
        for perm in itertools.permutations(pool, n):
            check_e2e(ctx, list(perm), "line order")
    # lines of none of the three kinds between / after classified ones: they land in no list and do
    # not disturb the lines around them
    strays = ["garbage", "", RAW + "", RAW + "   ", "0 = E solo", "7 = B 120000", '8 = E "unterminated', "= E \"x\""]
    for good in pool[:4]:
        for st in strays:
            for body in ([good, st], [st, good], [good, st, st], [pool[0], good, st, pool[2]], [good, st, pool[1], st]):
                check_e2e(ctx, body, "stray line among classified lines")
    # a text that quotes a whole event line of another (or the same) kind: the line is still ONE event of the kind
    # its own beginning says
    inner = ['1200 = E "lyric Lo-"', '7 = E "section B"', '9 = E "solo"', '  3 = E "lyric x"  ']
    for kw in ("lyric ", "section "):
        for inn in inner:
            for tmpl in ('%scue: %s', '%s%s', '%sa "b" %s c'):
                line = '960 = E "%s"' % (tmpl % (kw, inn))
                check_line(ctx, _order(), line, "text quoting an event line")
                check_e2e(ctx, [pool[0], line, pool[1]], "text quoting an event line")
    # empty lines in the sections IN FRONT of [Events] (a splitter that miscounts lines hands [Events] a shifted body)
    for k in (1, 2, 3):
        check_e2e(ctx, list(pool), "%d empty line(s) inside [Song]" % k, song_extra=[RAW + ""] * k)
        check_e2e(ctx, list(pool), "%d empty line(s) inside [SyncTrack]" % k, sync=("0 = TS 4",) + (RAW + "",) * k + ("0 = B 1000000000",))
        check_e2e(ctx, list(pool[:3]) + [RAW + ""] * k + list(pool[3:]), "%d empty line(s) inside [Events]" % k, song_extra=[RAW + "", 'Name = "n"'])
    # identical lines repeated (each occurrence is its own event)
    for a_ in pool[:3]:
        for b_ in pool[:3]:
            check_e2e(ctx, [a_, a_], "identical lines")
            check_e2e(ctx, [a_, b_, a_, b_, b_], "identical lines")
    # a long [Events] section: 1500 lines cycling through the kinds (thresholds on the number of lines / events)
    longbody = [('%d = E "lyric w%d"', '%d = E "section s %d"', '%d = E "free %d"', '%d = E "lyric \"q%d\""')[i % 4] % (2 * i, i) for i in range(1500)]
    check_e2e(ctx, longbody, "1500 lines", sync=("0 = TS 4", "0 = B 120000") + tuple("%d = B %d" % (100 * k, 60000 + k) for k in range(1, 25)))
    check_e2e(ctx, longbody[:700] + ["garbage"] + longbody[700:], "1501 lines, one of them a stray line")
    # long sections whose kinds are NOT evenly mixed (a dispatcher that adapts to the frequencies it has seen):
    # each kind in turn dominates the first 1030 / 2060 / 4100 lines, then all three kinds follow, quote-free
    kinds3 = ('%d = E "free text %d"', '%d = E "section part %d"', '%d = E "lyric syl%d"')
    for dom in range(3):
        for n in (1030, 2060, 4100):
            body = [kinds3[dom if i % 10 else (dom + 1 + i // 10 % 2) % 3] % (2 * i, i) for i in range(n)]
            body += [kinds3[i % 3] % (2 * (n + i), i) for i in range(60)]
            check_e2e(ctx, body, "%d lines dominated by kind %d, then 60 mixed lines" % (n, dom))
    # characters that text-level "clean-ups" like to strip: BOM / zero-width / no-break / ideographic blanks
    for sp in ("\ufeff", "\u200b", "\u00a0", "\u3000", "\U0001f3b8") + UNICODE_TRAPS + FORMAT_TRAPS:
        for tmpl in ("lyric a%sb", "lyric %s", "lyric%s x", "lyric %sx%s y", "section a%sb", "sec%stion x", "section%s", "a%sb", "%s", "x%s y"):
            t = tmpl.replace("%s", sp)
            line = '7 = E "%s"' % t
            check_line(ctx, _order(), line, "special character(s) %s" % ascii(sp))
            check_e2e(ctx, [pool[0], line, pool[2]], "special character(s) %s" % ascii(sp))
    # the same line text parsed EARLIER in this process in a section of another kind: a quoted one-word event is a
    # track event in an instrument section and a text event in [Events]; what a line meant in the chart before is
    # as irrelevant as what it means in another section of the same chart
    for w in ('"phrase_start"', '"x"', '"lyric"', '"section"', '"é"'):
        for t in (7, 768):
            line = "%d = E %s" % (t, w)
            earlier = mk(res=960, sync=["0 = TS 4", "0 = B 1000000000"], events=['1 = E "section s"'], tracks={"ExpertSingle": ["0 = N 0 0", line, "999 = E after"]})
            impl.model_outcome(earlier, "file", None, (), "model")
            check_e2e(ctx, [pool[0], line, pool[2]], "line %r parsed in an instrument section of the chart before" % line)
            check_e2e(ctx, [line], "line %r parsed in an instrument section of an earlier chart" % line)
    # LONG lines: an event text makes its physical line cross 8192 / 65536 characters (readline sizes, buffers)
    for n in (8100, 8170, 8180, 8192, 8200, 20000, 65530, 65540, 70000):
        for tmpl in ("lyric %s", "section %s", "%s"):
            t = tmpl % ("la " * (n // 3))[:n]
            check_e2e(ctx, [pool[0], '96 = E "%s"' % t, pool[2]], "event text of %d characters" % len(t))
    # text that looks like the start of a remark in other formats is part of the value
    for ct in COMMENT_TRAPS:
        if '"' in ct:
            continue  # inner quotes in a text event are the grey zone of DESIGN.md 3.4
        for tmpl in ("lyric %s", "section %s", "%s", "lyric a %s", "x %s"):
            line = '7 = E "%s"' % (tmpl % ct)
            check_line(ctx, _order(), line, "remark-like text %r" % ct)
            check_e2e(ctx, [pool[0], line, pool[2]], "remark-like text %r" % ct)
    # the keywords are 'lyric ' and 'section ' exactly: any other letter case (or a letter that only case-folds to
    # them) is ordinary text, and so is the marker 'e' for 'E'
    for t in ("Lyric x", "LYRIC x", "lYRIC x", "Section x", "SECTION x", "sEcTiOn x", "\u017fection x", "lyr\u0131c x", "LYR\u0130C x", "Lyric", "SECTION", "Lyric  two", "lyric X", "section X Y"):
        line = '7 = E "%s"' % t
        check_line(ctx, _order(), line, "keyword in another letter case")
        check_e2e(ctx, [pool[0], line, pool[1], pool[2]], "keyword in another letter case")
    for line in ('7 = e "x"', '7 = e "lyric x"', '7 = E "x"'.lower(), '7 = E "SECTION x"'.swapcase()):
        check_e2e(ctx, [pool[0], line, pool[2]], "lower-case event marker (not an event line)")
    sync = ("0 = TS 4", "0 = B 120000", "3 = B 60000", "5 = B 200000")
    for n in (2, 3):
        for idx in itertools.combinations(range(6), n):
            check_e2e(ctx, [pool[i] for i in idx], "lines across tempo segments", sync=sync)


BLOCK_EVENTS = [('%d = E "section s%d"', '%d = E "lyric ly-%d"', '%d = E "free text %d"', '%d = E "lyric \"q%d\""', '%d = E "sectionx %d"')[i % 5] % (48 * i, i) for i in range(30)]


def _block_text(pad):
    return mk(res=192, song_extra=['Name = "%s"' % ("x" * pad)], sync=["0 = TS 4", "0 = B 120000", "700 = B 90000"], events=BLOCK_EVENTS, tracks={"ExpertSingle": ["0 = N 0 0", "3000 = N 1 5"]})


def replay(case):
    if "shape" in case:
        return e1.replay_model_case(case, "event-line-at-block-boundary")
    order = _order()
    if case.get("kind") == "line":
        gk, gd = linelang.claimant("events", case["line"], order)
        if gk == "<no-api>":
            return []
        got = None if gk is None else (list(gd) if isinstance(gd, tuple) else [gd.tick, gd.value])
        bad = (gk, got) != (case["expected_kind"], case["expected"])
        return [dict(key="classification", msg="still fails: %r %r" % (gk, got), case=case)] if bad else []
    if case.get("kind") == "e2e-kind":
        text = mk(res=960, sync=["0 = TS 4", "0 = B 1000000000"], events=[case["line"]])
        got = impl.model_outcome(text, "file", None, (), "model")
        bad = got[0] == "ok" and got[1]["globals"][case["k"]]
        return [dict(key="misclassified", msg="still produces the event", case=case)] if bad else []
    return e1.replay_model_case(case, "classification-end-to-end")
