"""C08 - tempo, time-signature and anchor lines decode to exact values (E1 exhaustive + E3)."""

from __future__ import annotations

import itertools

from .. import automata as A
from .. import envs
from .. import blocks, e1, impl, linelang, refmodel
from ..chartgen import RAW, mk
from ..linelang import BL

ID = "C08"
LEVEL = "model_checking"
ENGINE = "E1 bounded-exhaustive generation-tree explorer + E3 product automata"
RULE = (
    "B: EVERY n in 1..N written as '<k> = B n' into packed sync sections (10^4 lines per chart) and parsed by Chart.from_file; "
    "each bpm must be the float n/1000 and the chart accepted; plus powers of ten / two up to 18 digits. TS/A: every (u, l) of "
    "0..64 u {10^k-1} x {absent, 0..16}, anchor values around powers of ten and two up to the largest representable time (8.64*10^19 us), tick digit strings with leading zeros and up to 15 "
    "digits, single lines and sequences of 2-3 lines within one and across tempo segments. distinct = distinct decoded line; "
    "non-trivial = all"
)
ASSUMPTIONS = [
    "expected tempo is Python's correctly rounded n/1000",
    "time-signature exponents above 16 and values beyond 18 digits are not explored",
]

D = "[0-9]"
KINDS = {
    "B": dict(canon="0 = B 1", must=rf"^{BL}*{D}+ = B {D}+$", may=rf"^{BL}*{D}+ = B {D}+{BL}*$"),
    "TS": dict(canon="0 = TS 1", must=rf"^{BL}*{D}+ = TS {D}+( {D}+)?$", may=rf"^{BL}*{D}+ = TS {D}+( {D}+)?{BL}*$"),
    "A": dict(canon="0 = A 1", must=rf"^{BL}*{D}+ = A {D}+$", may=rf"^{BL}*{D}+ = A {D}+{BL}*$"),
}
DROP = ("metadata", "globals", "tracks", "instruments")

PROBE_SRC = '''
def probe(c):
    us = lambda td: (td.days * 86400 + td.seconds) * 10**6 + td.microseconds
    s = c.sync_track
    return [[[e.tick, float(e.bpm).hex()] for e in s.bpm_events],
            [[e.tick, e.upper_numeral, e.lower_numeral] for e in s.time_signature_events],
            [[e.tick, us(e.timestamp)] for e in s.anchor_events]]
'''
probe = None
PACK = 10**4


def setup():
    envs.enable(64)  # E1-M: every 64th case again under every environment of mc/envs.py
    global probe
    impl.load()
    probe = e1.compile_probe(PROBE_SRC)


def plan(tier, seed):
    N = 10**7 if tier == "quick" else 5 * 10**7
    shards = [("B", lo, min(N, lo + 10 * PACK - 1)) for lo in range(1, N + 1, 10 * PACK)]
    shards += [("automata", 5 if tier == "quick" else 6), ("beyond",), ("TS", 0), ("TS", 1), ("A",), ("ticks",), ("seq", "TS"), ("seq", "A"), ("seq", "B"), ("stray",)]
    shards += [("blocks", B, part) for B in blocks.BLOCKS for part in range(4)]
    return dict(shards=shards, bounds=dict(block_sweep="a 36-line [SyncTrack] slid character by character across text offsets %r" % (blocks.BLOCKS,), B_all_up_to=N, TS_upper="0..64 + 10^k-1", TS_exponent="absent, 0..16", tick_digits="<= 15, leading zeros"), budget_s=900)


def sync_text(lines, res=1000):
    return mk(res=res, sync=["0 = TS 4"] + lines)


def check_B(ctx, ns):
    """ns: list of thousandths; one packed chart."""
    lines = ["%d = B %d" % (k, n) for k, n in enumerate(ns)]
    text = sync_text(lines)
    got = e1.run_probe(probe, text)
    ctx.executions += 1
    ctx.node(len(ns))
    ctx.evaluations += len(ns)
    ctx.nontrivial += len(ns)
    ctx.hist["B_values"] += len(ns)
    if len(ctx.samples) < 1:
        ctx.samples.append(dict(packed_chart_lines=lines[:3] + ["..."] + lines[-2:], count=len(ns)))
    exp = [[k, float(n / 1000).hex()] for k, n in enumerate(ns)]
    if isinstance(got, list) and got[:1] != ["raises"] and got[0] == exp:
        return
    # locate the offending value: first mismatch, or bisect a rejected chart
    if isinstance(got, list) and got[:1] != ["raises"]:
        bad = next((i for i, (g, e) in enumerate(zip(got[0], exp)) if g != e), min(len(got[0]), len(exp)) - 1)
    else:
        lo, hi = 1, len(ns)  # smallest prefix that is rejected
        while lo < hi:
            mid = (lo + hi) // 2
            g = e1.run_probe(probe, sync_text(lines[:mid]))
            if isinstance(g, list) and g[:1] == ["raises"]:
                hi = mid
            else:
                lo = mid + 1
        bad = lo - 1
    n = ns[bad]
    single = sync_text(["0 = B %d" % n])
    acc = [[[[0, float(n / 1000).hex()]], [[0, 4, 4]], []]]
    g1 = e1.run_probe(probe, single)
    if g1 not in acc:
        e1.report(ctx, "bpm-value", single, PROBE_SRC, acc, g1, "'0 = B %d' must be accepted and decode to %r BPM" % (n, n / 1000))
    else:
        e1.report(ctx, "bpm-value-packed", text, PROBE_SRC, [[exp, [[0, 4, 4]], []]], got if len(str(got)) < 500 else str(got)[:500], "value %d is mis-decoded or rejected only inside the packed chart (line %d)" % (n, bad))


DECODED_SRC = "def probe(c):\n    return 'decoded'   # the chart must load (every line of it is well-formed)"


def check_lines(ctx, lines, exp_ts, exp_a, what, res=960, tempo=("0 = B 1000000000",), exp_b=None, song_extra=()):
    text = mk(res=res, sync=["0 = TS 4"] + list(tempo) + lines, song_extra=list(song_extra))
    got = e1.run_probe(probe, text)
    ctx.case(text, sample=lambda: dict(lines=lines, expected_ts=exp_ts, expected_anchors=exp_a))
    ctx.evaluations += len(lines)
    if got[:1] == ["raises"]:
        e1.report(ctx, "sync-line", text, DECODED_SRC, ["decoded"], got, "%s: rejected, lines %r" % (what, lines), extra_case=dict(must_not_raise=True))
        return
    acc_ts = [[0, 4, 4]] + exp_ts
    if got[1] != acc_ts or got[2] != exp_a or (exp_b is not None and got[0] != exp_b):
        e1.report(ctx, "sync-line", text, PROBE_SRC, [[got[0] if exp_b is None else exp_b, acc_ts, exp_a]], got, "%s: lines %r decode to TS %r anchors %r" % (what, lines, got[1][1:], got[2]))


def sync_context(line):
    """Sync body in which `line` (a canonical B / TS / A line) is well-formed."""
    d = refmodel.read_sync_line(line)
    if d is not None and d[0] == "B" and d[1] == 0:
        return ["0 = TS 4", line]
    return ["0 = TS 4", "0 = B 1000000000", line]


def _automata(ctx, L):
    try:
        a = linelang.analyse("sync", KINDS)
    except A.Unsupported as e:
        ctx.hist["E3_unavailable(%s): bounded enumeration only" % e] += 1
        ctx.extra["e3"] = "unavailable: %s" % e
        return
    g = a.graph
    ctx.nodes += len(g.states)
    ctx.edges += g.transitions
    ctx.extra.update(product_states=len(g.states), product_transitions=g.transitions, alphabet_classes=g.nclasses, captured_recognisers=[p.pattern for p in a.pats], captured_order=[k or "?" for k in a.kind_of])
    ctx.extra["translator_vs_regex_engine_strings"] = linelang.conformance(a, L)

    def e2e(w, why):
        text = mk(res=960, sync=sync_context(w))
        res = refmodel.model(text)
        ctx.case(("e2e", text), sample=lambda: dict(sync_body=sync_context(w), why=why))
        ctx.evaluations += 1
        e1.check_model(ctx, "sync-line-end-to-end", text, res, msg="%s: sync body %r" % (why, sync_context(w)), drop=DROP)

    for what, k, w in a.candidates:
        ctx.hist["model_candidates"] += 1
        if what == "must-not-claimed":
            e2e(w, "product automaton counterexample (L_must(%s))" % k)
        else:
            # claimed as k outside L_may(k): confirmed iff the real chart shows one more k event
            text = mk(res=960, sync=["0 = TS 4", "0 = B 1000000000", w])
            got = e1.run_probe(probe, text)
            ctx.case(("cand", w))
            ctx.evaluations += 1
            n = dict(B=1, TS=1, A=0)
            if got[:1] != ["raises"] and len(got[dict(B=0, TS=1, A=2)[k]]) > n[k]:
                e1.report(ctx, "accepts-non-line", text, PROBE_SRC, [[[[0, float(10**6).hex()]], [[0, 4, 4]], []]], got, "line %r lies outside every shape a %s line may have, yet a %s event is produced" % (w, k, k))
    for w in a.witnesses:
        if refmodel.read_sync_line(w) is not None and w == w.rstrip(" \t") and len(w) < 60:
            e2e(w, "witness of a product transition")
        else:
            ctx.hist["witness_outside_L_must"] += 1


BLOCK_SYNC = ["0 = TS 4", "0 = B 120000"] + [("%d = B %d" % (96 * i, 60000 + 1118 * i), "%d = TS %d %d" % (96 * i, 1 + i % 9, i % 4), "%d = A %d" % (96 * i, 250000 * i + i))[i % 3] for i in range(1, 35)]


def _block_text(pad):
    return mk(res=192, song_extra=['Name = "%s"' % ("x" * pad)], sync=BLOCK_SYNC, events=['0 = E "section a"'], tracks={"ExpertSingle": ["0 = N 0 0", "3000 = N 1 5"]})


def run_shard(shard, ctx):
    kind = shard[0]
    if kind == "blocks":
        blocks.sweep(ctx, "sync-line-at-block-boundary", _block_text, "SyncTrack", blocks=(shard[1],), part=shard[2], parts=4, vias=("file",) if shard[1] > 8192 else ("file", "path"))
        return
    if kind == "automata":
        _automata(ctx, shard[1])
    elif kind == "B":
        _, lo, hi = shard
        for a in range(lo, hi + 1, PACK):
            if ctx.out_of_time():
                return
            check_B(ctx, list(range(a, min(hi, a + PACK - 1) + 1)))
    elif kind == "beyond":
        ns = sorted({10**k + d for k in range(0, 18) for d in (-1, 0, 1) if 10**k + d >= 1} | {2**k for k in range(0, 60)} | {10**18 - 1, 123456789012345678})
        check_B(ctx, ns)
        for n in ns:  # and each alone, at tick 0
            check_B(ctx, [n])
    elif kind == "TS":
        uppers = list(range(0, 65)) + [10**k - 1 for k in range(3, 16, 3)]
        lowers = [None] + list(range(0, 17))
        for u in uppers[shard[1] :: 2]:
            ctx.node()
            for l in lowers:
                line = "7 = TS %d" % u if l is None else "7 = TS %d %d" % (u, l)
                check_lines(ctx, [line], [[7, u, 4 if l is None else 2**l]], [], "time signature")
    elif kind == "A":
        vals = sorted({0, 1, 999999, 10**6, 8589934592000001, 12345678901234567, 86399999999999999999} | {10**k + d for k in range(1, 20) for d in (-1, 0, 1)} | {2**k + d for k in range(20, 66, 3) for d in (-1, 1)})
        for v in vals:
            check_lines(ctx, ["3 = A %d" % v], [], [[3, v]], "anchor")
    elif kind == "ticks":
        for ds in ("0", "7", "10", "007", "0000", "12345678", "123456789012345", "000000000000001", "99999"):
            t = int(ds)
            check_lines(ctx, ["%s = TS 3 1" % ds], [[t, 3, 2]], [], "tick digit string %r" % ds)
            check_lines(ctx, ["%s = A 55" % ds], [], [[t, 55]], "tick digit string %r" % ds)
            if t > 0:
                check_lines(ctx, ["%s = B 120500" % ds], [], [], "tick digit string %r" % ds, exp_b=[[0, float(10**6).hex()], [t, float(120.5).hex()]])
    elif kind == "stray":
        # every B / TS / A line is decoded once and from ITS OWN text, whatever unrecognised lines stand next to it
        # (a dispatcher that carries the previous line's datum over an unrecognised line, or files it under the
        # last kind tried)
        good = (("7 = TS 3 1", [[7, 3, 2]], [], None), ("7 = A 55", [], [[7, 55]], None), ("7 = B 120500", [], [], [[0, float(10**6).hex()], [7, float(120.5).hex()]]), ("9 = TS 5", [[9, 5, 4]], [], None))
        strays = ("", "garbage", "7 = N 0 0", '7 = E "x"', "7 = B x", "7 = TS", "7 = A", "7 = BB 1", "// comment", "7 = S 2 5")
        for (l1, ts1, a1, b1), (l2, ts2, a2, b2) in itertools.product(good, repeat=2):
            if l1 == l2 or (b1 and b2):
                continue
            eb = b1 or b2
            # empty / blank lines in the section IN FRONT ([Song]): the sync section still gets exactly its lines
            for blanks in ([RAW + ""], [RAW + "", 'Name = "n"', RAW + "  "], ["", RAW + "", RAW + ""]):
                check_lines(ctx, [l1, l2], ts1 + ts2, a1 + a2, "%d blank line(s) inside [Song]" % len(blanks), exp_b=(eb or [[0, float(10**6).hex()]]), song_extra=blanks)
            for st in strays:
                for lines in ([l1, st], [st, l1], [l1, st, l2], [l1, st, st, l2], [st, l1, l2, st]):
                    has2 = l2 in lines
                    check_lines(ctx, lines, ts1 + (ts2 if has2 else []), a1 + (a2 if has2 else []), "unrecognised line %r next to sync lines" % st, exp_b=(eb if has2 or b1 else [[0, float(10**6).hex()]]))
    elif kind == "seq":
        tempo = ("0 = B 120000", "10 = B 60000", "20 = B 240000")
        if shard[1] == "TS":
            vals = [(0, None), (1, 0), (3, 3), (4, 2), (7, None), (12, 3), (64, 16), (999, 1)]
            mkl = lambda t, v: ("%d = TS %d" % (t, v[0]) if v[1] is None else "%d = TS %d %d" % (t, v[0], v[1]))  # noqa: E731
            ex = lambda t, v: [t, v[0], 4 if v[1] is None else 2 ** v[1]]  # noqa: E731
        elif shard[1] == "A":
            vals = [0, 1, 999999, 10**6, 10**9 + 1, 5, 10**15 - 1, 77]
            mkl = lambda t, v: "%d = A %d" % (t, v)  # noqa: E731
            ex = lambda t, v: [t, v]  # noqa: E731
        else:
            vals = [1, 999, 1000, 1118, 20548, 120000, 99999999, 10**9]
        for tk in ((5, 6), (5, 15), (10, 11), (5, 15, 25), (12, 13, 14), (9, 10, 20)) + (((5, 5), (10, 10, 10), (6, 5)) if shard[1] != "B" else ()):
            for vs in itertools.product(vals, repeat=len(tk)):
                if ctx.out_of_time():
                    return
                if shard[1] == "B":
                    lines = ["%d = B %d" % (t, v) for t, v in zip(tk, vs)]
                    exp_b = [[0, float(120).hex()]] + [[t, float(v / 1000).hex()] for t, v in zip(tk, vs)]
                    check_lines(ctx, lines, [], [], "tempo sequence", res=192, tempo=("0 = B 120000",), exp_b=exp_b)
                else:
                    lines = [mkl(t, v) for t, v in zip(tk, vs)]
                    exp = [ex(t, v) for t, v in zip(tk, vs)]
                    check_lines(ctx, lines, exp if shard[1] == "TS" else [], exp if shard[1] == "A" else [], "%s sequence across tempo segments" % shard[1], res=192, tempo=tempo)


def replay(case):
    if case.get("must_not_raise"):
        return e1.replay_text_case(case, e1.compile_probe(DECODED_SRC), "sync-line", DECODED_SRC)
    if "shape" in case:
        return e1.replay_model_case(case, "sync-line-at-block-boundary")
    return e1.replay_text_case(case, probe, "sync-line", PROBE_SRC)
