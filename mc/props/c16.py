"""C16 - notes_per_second is count-in-closed-interval over interval length (engine E1)."""

from __future__ import annotations

import itertools
from datetime import timedelta
from fractions import Fraction

from .. import e1, impl
from ..chartgen import mk

ID = "C16"
LEVEL = "model_checking"
ENGINE = "E1 bounded-exhaustive generation-tree explorer"
RULE = (
    "every track of 1..5 (thorough: 1..7) notes over ticks {0,10,50,51,99,100,130} x 3 sustain layouts (+ the same notes written out of tick order) x 5 tempo maps; on each, every bound pair "
    "from ticks {note ticks, +-1, 0, last+10} and from timestamps {note times, +-1 us, 0, last note end +-1 us} in all five call "
    "forms; plus absent instrument / absent difficulty / note-less track; distinct = distinct (track, map, call); non-trivial = "
    "the interval has positive length"
)
ASSUMPTIONS = [
    "only the five typed overload forms are explored (DESIGN.md 3.8)",
    "tick bounds are resolved with the implementation's un-hinted query; float result compared with the exact fraction to 1e-12",
]

TICKS = (0, 10, 50, 51, 99, 100, 130)
MAPS = ((), ((50, 60000),), ((50, 60000), (100, 333333)), ((10, 1000), (51, 10**9), (99, 90500), (130, 120000)), ((1, 240000), (2, 30000)), ((10, 10**10),), ((50, 50), (51, 7), (52, 120000)))  # the map before the last: 0.06 us per tick; the last: one- and two-digit tempo values (0.05 and 0.007 BPM): 0.06 us per tick - neighbouring ticks share a microsecond

PROBE_TMPL = '''
ARGS = {args!r}      # bounds: ["tick", n], ["us", n] or ["none", 0] (bound omitted)
EXPECT = {expect!r}  # exact [numerator, denominator] or "ValueError"
TRACK = {track!r}
def probe(c):
    from datetime import timedelta
    from fractions import Fraction
    from chartparse.instrument import Instrument, Difficulty
    a = [x if k == "tick" else None if k == "none" else timedelta(microseconds=x) for k, x in ARGS]
    try:
        r = c.notes_per_second(Instrument[TRACK[0]], Difficulty[TRACK[1]], *a)
    except ValueError:
        return "ValueError"
    if EXPECT == "ValueError":
        return float(r).hex()
    e = Fraction(*EXPECT)
    return "agrees" if abs(Fraction(r) - e) <= e * Fraction(1, 10**12) else float(r).hex()
'''


def setup():
    impl.load()


def plan(tier, seed):
    nmax = 5 if tier == "quick" else 7
    nmaps = len(MAPS)
    lays = (0, 1, 2, 3, 4, 5, 6)
    shards = [("grid", mi, n, lay) for mi in range(nmaps) for n in range(1, nmax + 1) for lay in lays] + [("absent",), ("many",), ("siblings",)] + [("optimised", ("-O",)), ("optimised", ("-OO",))] + [("meta", k) for k in range(len(SONGS))] + [("far",)]
    return dict(shards=shards, bounds=dict(max_notes=nmax, tick_alphabet=list(TICKS), maps=[list(map(list, m)) for m in MAPS[:nmaps]], sustain_layouts=len(lays)), budget_s=600)


# [Song] fields are not part of the statement ("an omitted start means time zero", whatever Offset says)
SONGS = (
    ["Offset = 2"],
    ["Offset = 40"],
    ["Offset = 0"],
    ["Offset = 2", "PreviewStart = 3", "PreviewEnd = 5", "Difficulty = 4", 'Name = "n"', "Player2 = bass"],
    ['MusicStream = "song.ogg"', 'Year = ", 2001"', "Offset = 1"],
)


def call(c, track, args):
    P = impl.P
    a = [x if k == "tick" else None if k == "none" else timedelta(microseconds=x) for k, x in args]
    try:
        return c.notes_per_second(P.Instrument[track[0]], P.Difficulty[track[1]], *a)
    except ValueError:
        return "ValueError"
    except Exception as e:  # noqa: BLE001
        return "raises " + type(e).__name__


def judge(r, exp):
    if exp == "ValueError" or isinstance(r, str):
        return r == exp
    e = Fraction(*exp)
    return abs(Fraction(r) - e) <= e * Fraction(1, 10**12)


def check(ctx, c, text, track, args, exp, what):
    r = call(c, track, args)
    ctx.case((text, track, tuple(map(tuple, args))), nontrivial=exp != "ValueError", sample=lambda: dict(track=list(track), args=args, expected=exp, body=text.split("[ExpertSingle]")[-1].split()))
    ctx.evaluations += 1
    ctx.hist["value" if exp != "ValueError" else "ValueError"] += 1
    if not judge(r, exp):
        src = PROBE_TMPL.format(args=args, expect=exp if exp == "ValueError" else list(exp), track=list(track))
        acc = ["ValueError"] if exp == "ValueError" else ["agrees"]
        obs = r if isinstance(r, str) else float(r)
        ctx.violation("rate", dict(text=text, args=args, expect=exp if exp == "ValueError" else list(exp), track=list(track)), "%s: notes_per_second%r = %r, expected %s" % (what, tuple(args), obs, exp if exp == "ValueError" else "%d/%d = %r" % (exp[0], exp[1], exp[0] / exp[1])), expected=exp if exp == "ValueError" else exp[0] / exp[1], observed=obs, script=e1.script(text, src, acc))


def oracle(nt, s, e):
    """nt: note start times (us). Closed interval [s, e] in us."""
    if e - s <= 0:
        return "ValueError"
    return (sum(1 for t in nt if s <= t <= e) * 10**6, e - s)


def run_shard(shard, ctx):
    if shard[0] == "optimised":
        from .. import core
        import sys

        core.run_in_other_interpreter(ctx, sys.modules[__name__], [("absent",), ("siblings",), ("grid", 1, 2, 1), ("grid", 2, 3, 5)], shard[1], "absent / note-less tracks, sibling tracks, two grid cells")
        return
    if shard[0] == "absent":
        text = mk(res=100, tracks={"ExpertSingle": ["0 = N 0 0", "10 = N 1 0"], "HardSingle": ["3 = S 2 4", "5 = E solo"]})
        c = impl.parse(text)
        forms = [[], [["tick", 0]], [["tick", 0], ["tick", 20]], [["us", 0]], [["us", 0], ["us", 10**6]]]
        for track, what in ((("BASS", "EXPERT"), "absent instrument"), (("GUITAR", "MEDIUM"), "absent difficulty"), (("GUITAR", "HARD"), "note-less track"), (("DRUMS", "EASY"), "absent instrument")):
            for args in forms:
                check(ctx, c, text, track, args, "ValueError", what)
        return
    if shard[0] == "siblings":
        # several tracks in one chart - other difficulties of the SAME instrument and other instruments, ending earlier
        # and later than the chosen track, one of them note-less: "the chosen track" means that track alone
        H = {"ExpertSingle": ("GUITAR", "EXPERT"), "HardSingle": ("GUITAR", "HARD"), "MediumSingle": ("GUITAR", "MEDIUM"), "EasySingle": ("GUITAR", "EASY"), "ExpertDoubleBass": ("BASS", "EXPERT"), "HardDoubleBass": ("BASS", "HARD")}
        layouts = (
            dict(ExpertSingle=[(0, 0), (10, 0), (50, 3)], HardSingle=[(0, 0), (99, 0), (130, 40)], MediumSingle=[(10, 0)], EasySingle=[], ExpertDoubleBass=[(0, 0), (300, 0)], HardDoubleBass=[(51, 9)]),
            dict(ExpertSingle=[(0, 200), (10, 0)], HardSingle=[(100, 0)], MediumSingle=[(0, 0), (1, 0), (2, 0)], ExpertDoubleBass=[(130, 0)]),
            dict(HardSingle=[(50, 0), (51, 0)], ExpertSingle=[(50, 0), (51, 1)], EasySingle=[(50, 0), (51, 2)], MediumSingle=[(50, 0), (52, 0)]),
        )
        for mi in (0, 2, 4):
            tempo = ((0, 120000),) + MAPS[mi % len(MAPS)]
            sync = ["0 = TS 4"] + ["%d = B %d" % x for x in tempo]
            for lay in layouts:
                for order in (list(lay), list(lay)[::-1]):
                    ctx.node()
                    tracks = [(h, ["%d = N %d %d" % (t, i % 5, s_) for i, (t, s_) in enumerate(lay[h])]) for h in order]
                    text = mk(res=100, sync=sync, tracks=tracks)
                    c = impl.parse(text)
                    q = lambda t: impl.query(c, t)  # noqa: E731
                    for h in order:
                        notes = lay[h]
                        what = "chart with tracks %r, chosen [%s]" % ({k: lay[k] for k in order}, h)
                        if not notes:
                            for args in ([], [["tick", 0]], [["us", 0]]):
                                check(ctx, c, text, H[h], args, "ValueError", what)
                            continue
                        nt = [q(t) for t, _ in notes]
                        lne = max(q(t + s_) for t, s_ in notes)
                        check(ctx, c, text, H[h], [], oracle(nt, 0, lne), what)
                        for s in sorted({0, 1} | {t + d for t, _ in notes for d in (0, 1)} | {t for k in order for t, _ in lay[k]}):
                            check(ctx, c, text, H[h], [["tick", s]], oracle(nt, q(s), lne), what)
                            check(ctx, c, text, H[h], [["us", q(s)]], oracle(nt, q(s), lne), what)
        return
    if shard[0] == "many":
        # a track of 700 notes (thresholds on the number of notes), bounds on / next to notes everywhere
        tempo = ((0, 120000), (300, 60000), (900, 333333), (1500, 90500))
        sync = ["0 = TS 4"] + ["%d = B %d" % x for x in tempo]
        ticks = [3 * i for i in range(700)]
        body = ["%d = N %d %d" % (t, i % 5, 2 if i % 7 == 0 else 0) for i, t in enumerate(ticks)]
        text = mk(res=100, sync=sync, tracks={"ExpertSingle": body})
        c = impl.parse(text)
        q = lambda t: impl.query(c, t)  # noqa: E731
        nt = [q(t) for t in ticks]
        lne = max(q(t + (2 if i % 7 == 0 else 0)) for i, t in enumerate(ticks))
        G = ("GUITAR", "EXPERT")
        check(ctx, c, text, G, [], oracle(nt, 0, lne), "700 notes")
        marks = [0, 1, 2, 3, 4, 297, 300, 301, 897, 900, 903, 1046, 1047, 1048, 1049, 1050, 1500, 2094, 2095, 2097, 2098, 5000]
        for s_ in marks:
            check(ctx, c, text, G, [["tick", s_]], oracle(nt, q(s_), lne), "700 notes")
            for e_ in marks:
                check(ctx, c, text, G, [["tick", s_], ["tick", e_]], oracle(nt, q(s_), q(e_)), "700 notes")
                check(ctx, c, text, G, [["us", q(s_)], ["us", q(e_) + (s_ % 2)]], oracle(nt, q(s_), q(e_) + (s_ % 2)), "700 notes")
        return
    if shard[0] == "far":
        # interval MAGNITUDES: ends hours, exactly one day, days and years after the last note (as timestamps and
        # as ticks), starts on and off notes
        DAY = 86400 * 10**6
        for mi in (0, 2):
            tempo = ((0, 120000),) + MAPS[mi]
            sync = ["0 = TS 4"] + ["%d = B %d" % x for x in tempo]
            ticks = (0, 10, 99, 130)
            body = ["%d = N %d %d" % (t, i % 5, 3 if i == 1 else 0) for i, t in enumerate(ticks)]
            text = mk(res=100, sync=sync, tracks={"ExpertSingle": body})
            c = impl.parse(text)
            q = lambda t: impl.query(c, t)  # noqa: E731
            nt = [q(t) for t in ticks]
            G = ("GUITAR", "EXPERT")
            what = "far bounds; notes at ticks %r tempo %r" % (list(ticks), [list(x) for x in tempo])
            ends = [3600 * 10**6, DAY - 1, DAY, DAY + 1, DAY + 10**7, 2 * DAY, 10 * DAY + 1, 400 * DAY, 10**15]
            for s_ in (0, 1, nt[1], nt[1] + 1, nt[-1]):
                for e_ in ends:
                    ctx.node()
                    check(ctx, c, text, G, [["us", s_], ["us", e_]], oracle(nt, s_, e_), what)
                    check(ctx, c, text, G, [["us", s_], ["us", s_ + e_]], oracle(nt, s_, s_ + e_), what)
            for st in (0, 10, 11, 130):
                for et in (17_280_000, 17_282_000, 34_560_000 + 130, 40_000_000, 10**10, 2**40):
                    ctx.node()
                    check(ctx, c, text, G, [["tick", st], ["tick", et]], oracle(nt, q(st), q(et)), what)
        return
    if shard[0] == "meta":
        song = SONGS[shard[1]]
        # (only the call forms of the typed interface: (), (start), (start, end); "end only" is not among them)
        for mi in range(len(MAPS)):
            tempo = ((0, 120000),) + MAPS[mi]
            sync = ["0 = TS 4"] + ["%d = B %d" % x for x in tempo]
            for n in (1, 2, 3):
                for ticks in itertools.combinations(TICKS[:6], n):
                    ctx.node()
                    sus = [0] * n
                    sus[0] = 5
                    body = ["%d = N %d %d" % (t, i % 5, s_) for i, (t, s_) in enumerate(zip(ticks, sus))]
                    text = mk(res=100, sync=sync, song_extra=song, tracks={"ExpertSingle": body})
                    c = impl.parse(text)
                    q = lambda t: impl.query(c, t)  # noqa: E731
                    nt = [q(t) for t in ticks]
                    lne = max(q(t + s_) for t, s_ in zip(ticks, sus))
                    G = ("GUITAR", "EXPERT")
                    what = "[Song] carries %r; notes at ticks %r" % (song, list(ticks))
                    check(ctx, c, text, G, [], oracle(nt, 0, lne), what)
                    for e in sorted({ticks[-1] + 10} | {t + d for t in ticks for d in (0, 1)}):
                        check(ctx, c, text, G, [["tick", 0], ["tick", e]], oracle(nt, 0, q(e)), what)
                        check(ctx, c, text, G, [["us", 0], ["us", q(e)]], oracle(nt, 0, q(e)), what)
                    for s_ in sorted({t + d for t in ticks for d in (0, 1)}):
                        check(ctx, c, text, G, [["tick", s_]], oracle(nt, q(s_), lne), what)
                        check(ctx, c, text, G, [["us", q(s_)]], oracle(nt, q(s_), lne), what)
        return
    _, mi, n, lay = shard
    tempo = ((0, 120000),) + MAPS[mi]
    sync = ["0 = TS 4"] + ["%d = B %d" % x for x in tempo]
    for ticks in itertools.combinations(TICKS, n):
        ctx.node()
        if ctx.out_of_time():
            return
        # layout 0: no sustains; layout 1: the first note's sustain reaches past the last note
        sus = [0] * n
        if lay == 1:
            sus[0] = ticks[-1] - ticks[0] + 7
        elif lay == 2:  # every note sustained into (or past) the next one
            sus = [9 + 3 * i for i in range(n)]
        elif lay in (5, 6):  # chords with one unsustained and one held lane (the last note's end is the held lane's)
            sus = [11 + 3 * i if i % 2 == n % 2 else 40 for i in range(n)]
        body = ["%d = N %d %d" % (t, i % 5, s) for i, (t, s) in enumerate(zip(ticks, sus))]
        if lay == 5:  # unsustained lane written first (lower lane), held lane second
            body = [ln for i, (t, s_) in enumerate(zip(ticks, sus)) for ln in ("%d = N %d 0" % (t, i % 3), "%d = N %d %d" % (t, 3 + i % 2, s_))]
        if lay == 6:  # held lane written first
            body = [ln for i, (t, s_) in enumerate(zip(ticks, sus)) for ln in ("%d = N %d %d" % (t, i % 3, s_), "%d = N %d 0" % (t, 3 + i % 2))]
        if lay == 4:  # flag lines carrying lengths far beyond every note (they are not sustains: C03)
            body = [ln for i, (t, ln0) in enumerate(zip(ticks, body)) for ln in ([ln0, "%d = N 6 %d" % (t, 60 + i)] + (["%d = N 5 %d" % (t, 90)] if i else []))]
        if lay == 3:  # note lines NOT in tick order (accepted while they stay inside one tempo region)
            if n < 2:
                continue
            body = body[1:] + body[:1] if n == 2 else [body[-1]] + body[1:-1][::-1] + [body[0]]
        text = mk(res=100, sync=sync, tracks={"ExpertSingle": body})
        try:
            c = impl.parse(text)
        except ValueError:
            ctx.hist["unsorted_track_rejected_by_parser(skipped)"] += 1
            continue
        q = lambda t: impl.query(c, t)  # noqa: E731
        nt = [q(t) for t in ticks]
        lne = max(q(t + s) for t, s in zip(ticks, sus))
        G = ("GUITAR", "EXPERT")
        what = "notes at ticks %r sustains %r tempo %r" % (list(ticks), sus, [list(x) for x in tempo])
        check(ctx, c, text, G, [], oracle(nt, 0, lne), what)
        tb = sorted({0, ticks[-1] + 10} | {t + d for t in ticks for d in (-1, 0, 1) if t + d >= 0})
        for s in tb:
            check(ctx, c, text, G, [["tick", s]], oracle(nt, q(s), lne), what)
            for e in tb:
                check(ctx, c, text, G, [["tick", s], ["tick", e]], oracle(nt, q(s), q(e)), what)
        ub = sorted({0, lne - 1, lne, lne + 1} | {t + d for t in nt for d in (-1, 0, 1) if t + d >= 0})
        for s in ub:
            check(ctx, c, text, G, [["us", s]], oracle(nt, s, lne), what)
            for e in ub:
                check(ctx, c, text, G, [["us", s], ["us", e]], oracle(nt, s, e), what)


def replay(case):
    c = impl.parse(case["text"])
    exp = case["expect"] if case["expect"] == "ValueError" else tuple(case["expect"])
    r = call(c, tuple(case["track"]), case["args"])
    return [] if judge(r, exp) else [dict(key="rate", msg="still fails: %r" % (r,), case=case)]
