"""C07 - instrument-section lines are recognised and decoded exactly (E3 + E1)."""

from __future__ import annotations

import itertools

from .. import automata as A
from .. import envs, blocks, e1, impl, linelang, refmodel
from ..chartgen import FORMAT_TRAPS, UNICODE_TRAPS, mk
from ..linelang import BL

ID = "C07"
LEVEL = "model_checking"
ENGINE = "E3 product automata of the captured recognisers + E1 token-product enumeration"
RULE = (
    "E3: joint product of the captured N/S/E recognisers (captured trial order, first-match) with L_must/L_may specification "
    "automata: explicit-state reachability decides L_must(K) <= claimed-as-K <= L_may(K) for strings of ANY length over a "
    "99-character alphabet; every candidate and one witness per product transition and target class replayed on the real "
    "line parsers and through Chart.from_file. E1: padding x tick digit strings x index 0..9,64 x length digit strings, single "
    "and in groups of 2-3 lines within/across tempo segments. distinct = distinct line or line group; non-trivial = all"
)
ASSUMPTIONS = [
    "alphabet: printable ASCII + TAB + {e-acute, CJK, note sign}; blank = space or TAB (DESIGN.md 2.1, 3.4)",
    "grey zone (unconstrained): track event with an empty word or a TAB inside the word",
    "end-to-end replays keep ticks and lengths <= 12 digits so that times stay inside the timedelta range; longer digit strings "
    "are checked on the line parsers",
]

D = "[0-9]"
KINDS = {
    "N": dict(canon="0 = N 0 0", must=rf"^{BL}*{D}+ = N [0-7] {D}+{BL}*$", may=rf"^{BL}*{D}+ = N [0-7] {D}+{BL}*$"),
    "S": dict(canon="0 = S 2 0", must=rf"^{BL}*{D}+ = S 2 {D}+{BL}*$", may=rf"^{BL}*{D}+ = S 2 {D}+{BL}*$"),
    "E": dict(canon="0 = E x", must=rf"^{BL}*{D}+ = E [^ \t]+{BL}*$", may=rf"^{BL}*{D}+ = E [^ ]*{BL}*$"),
}
DROP = ("hopo", "sp")

SCRIPT = """line = {line!r}
expected_kind, expected = {kind!r}, {expected!r}
from chartparse.exceptions import RegexNotMatchError
from chartparse.instrument import NoteEvent, StarPowerEvent, TrackEvent
got_kind, got = None, None
for k, cls in {order}:
    try:
        d = cls.ParsedData.from_chart_line(line)
    except RegexNotMatchError:
        continue
    except Exception as e:
        got_kind, got = k, ["raises", type(e).__name__]
        break
    got_kind = k
    got = [d.tick] + ([d.note_track_index.value, d.sustain] if k == "N" else [d.sustain] if k == "S" else [d.value])
    break
print("line", repr(line), "claimed by", got_kind, "datum", got, "; expected", expected_kind, expected)
if expected_kind is None:
    sys.exit(1 if (got_kind is not None and got[:1] != ["raises"]) else 0)
sys.exit(0 if (got_kind, got) == (expected_kind, expected) else 1)
"""


def setup():
    envs.enable(16)  # E1-M: every 16th model-equality case again under every environment of mc/envs.py
    impl.load()


TIER = "quick"


def plan(tier, seed):
    global TIER
    TIER = tier
    L = 5 if tier == "quick" else 6
    shards = [("automata", L), ("tokens", "N"), ("tokens", "S"), ("tokens", "E"), ("groups", "N"), ("groups", "S"), ("groups", "E"), ("nearmiss",), ("twins",)]
    shards += [("blocks", B, part) for B in blocks.BLOCKS for part in range(4)]
    return dict(shards=shards, bounds=dict(alphabet_size=len(A.SIGMA), conformance_string_length=L, string_length="unbounded (automata)"), budget_s=900)


# ----------------------------------------------------------------------------------------------
# reference decoder (independent of the package)


def decode(line):
    """('N', [tick, index, length]) | ('S', [tick, length]) | ('E', [tick, word]) for canonical
    lines (L_must); None otherwise."""
    d = refmodel.read_track_line(line)
    if d is None:
        return None
    return d[0], list(d[1:])


def datum_fields(kind, d):
    if kind == "N":
        return [d.tick, d.note_track_index.value, d.sustain]
    if kind == "S":
        return [d.tick, d.sustain]
    return [d.tick, d.value]


def check_line(ctx, order, line, why, api=True):
    """Datum-level replay of one string against the real line parsers in captured order."""
    exp = decode(line)
    gk, gd = linelang.claimant("track", line, order)
    if gk == "<no-api>":
        ctx.hist["line_parser_api_unavailable(end-to-end replay only)"] += 1
        return
    got = None if gk is None else (gd if isinstance(gd, tuple) else datum_fields(gk, gd))
    ctx.case(("line", line), sample=lambda: dict(line=line, expected=exp, why=why))
    ctx.evaluations += 1
    if exp is not None:
        ctx.hist["in_L_must_" + exp[0]] += 1
        if gk != exp[0] or got != exp[1]:
            _report_line(ctx, order, line, exp[0], exp[1], gk, got, "must-decode", why)
        return
    # not canonical: inside some L_may -> grey (unconstrained); outside every L_may -> no event
    ctx.hist["not_canonical"] += 1


def _report_line(ctx, order, line, ek, ev, gk, got, key, why):
    got_j = list(got) if isinstance(got, (list, tuple)) else got
    names = "[" + ", ".join("(%r, %s)" % (k, c.__name__) for k, c in order) + "]"
    ctx.violation(
        key,
        dict(kind="line", line=line, expected_kind=ek, expected=ev),
        "%s: line %r is claimed by %s with datum %r; expected %s %r" % (why, line, gk, got_j, ek, ev),
        expected=[ek, ev],
        observed=[gk, got_j],
        script=SCRIPT.format(line=line, kind=ek, expected=ev, order=names),
    )


def e2e_body(line):
    d = decode(line)
    if d and d[0] == "N" and d[1][1] in (5, 6):
        return ["%d = N 2 3" % d[1][0], line]
    return [line]


def check_e2e(ctx, body, why, sync=("0 = TS 4", "0 = B 1000000000"), events=(), header="ExpertSingle", drop=DROP):
    text = mk(res=960, sync=list(sync), events=list(events), tracks={header: body})
    try:
        res = refmodel.model(text)
    except refmodel.OutOfDomain as e:
        linelang.fault("generator left the model's domain: %s (%r)" % (e, body))
    ctx.case(("e2e", text), sample=lambda: dict(body=body, why=why))
    ctx.evaluations += 1
    e1.check_model(ctx, "must-decode-end-to-end", text, res, msg="%s: section body %r" % (why, body), drop=drop)


def run_shard(shard, ctx):
    kind = shard[0]
    if kind == "blocks":
        blocks.sweep(ctx, "track-line-at-block-boundary", _block_text, "ExpertSingle", blocks=(shard[1],), part=shard[2], parts=4, vias=("file",) if shard[1] > 8192 else ("file", "path"))
    elif kind == "automata":
        _automata(ctx, shard[1])
    elif kind == "twins":
        _twins(ctx)
    elif kind == "tokens":
        _tokens(ctx, shard[1])
    elif kind == "nearmiss":
        _nearmiss(ctx)
        _headers(ctx)
        _runs(ctx)
        _foreign_digits(ctx)
        _shared_text(ctx)
    else:
        _groups(ctx, shard[1])


def _automata(ctx, L):
    try:
        a = linelang.analyse("track", KINDS)
    except A.Unsupported as e:
        ctx.hist["E3_unavailable(%s): bounded string enumeration only" % e] += 1
        ctx.extra["e3"] = "unavailable: %s" % e
        return
    g = a.graph
    ctx.nodes += len(g.states)
    ctx.edges += g.transitions
    ctx.extra.update(product_states=len(g.states), product_transitions=g.transitions, alphabet_classes=g.nclasses, captured_recognisers=[p.pattern for p in a.pats], captured_order=[k or "?" for k in a.kind_of])
    ctx.extra["translator_vs_regex_engine_strings"] = linelang.conformance(a, L)
    api = linelang.check_api()
    order = linelang.dispatch_order(a)
    # candidates from the model are replayed on the real code before being reported
    for what, k, w in a.candidates:
        ctx.hist["model_candidates"] += 1
        if what == "must-not-claimed":
            if api:
                check_line(ctx, order, w, "product automaton: string of L_must(%s) not first-claimed by the %s recogniser" % (k, k))
            check_e2e(ctx, e2e_body(w), "product automaton counterexample (L_must(%s))" % k)
        else:
            # claimed as k outside L_may(k): a violation iff the real code produces an event of kind k
            text = mk(res=960, sync=["0 = TS 4", "0 = B 1000000000"], tracks={"ExpertSingle": [w]})
            got = impl.model_outcome(text, "file", None, (), "model")
            ctx.case(("cand", w))
            ctx.evaluations += 1
            if got[0] == "ok":
                tr = got[1]["tracks"].get("GUITAR/EXPERT", {})
                n = dict(N=len(tr.get("notes", [])), S=len(tr.get("phrases", [])), E=len(tr.get("events", [])))
                if n[k]:
                    ctx.violation("accepts-non-line", dict(kind="e2e-none", line=w, k=k), "line %r (outside L_may(%s)) produces a %s event" % (w, k, k), expected="no %s event" % k, observed=tr, script=e1.script(text, "def probe(c):\n    from chartparse.instrument import Instrument, Difficulty\n    t = c[Instrument.GUITAR][Difficulty.EXPERT]\n    return [len(t.note_events), len(t.star_power_events), len(t.track_events)]", [[0, 0, 0]]))
    # one witness per product transition and target class
    for w in a.witnesses:
        if api:
            check_line(ctx, order, w, "witness of a product transition")
        if decode(w) is not None and len(w) < 60:
            check_e2e(ctx, e2e_body(w), "witness of a product transition")
        else:
            inm, iny = linelang.spec_class(a, w)
            if not iny:
                gk, gd = linelang.claimant("track", w, order) if api else (None, None)
                ctx.evaluations += 1
                if gk not in (None, "<no-api>") and not isinstance(gd, tuple):
                    _report_line(ctx, order, w, None, None, gk, datum_fields(gk, gd), "accepts-non-line", "witness outside every L_may")


PADS = ("", " ", "  ", "\t")
TICKS = ("0", "7", "10", "007", "12345678", "12345678901234567890")
LENGTHS = ("0", "5", "007", "123456789012")


def _tokens(ctx, kind):
    a = None
    try:
        a = linelang.analyse("track", KINDS)
        order = linelang.dispatch_order(a)
    except A.Unsupported:
        order = linelang.kind_classes("track")
    for lead, trail, t in itertools.product(PADS, PADS, TICKS):
        ctx.node()
        if kind == "N":
            for idx, ln in itertools.product(list(range(10)) + [64], LENGTHS):
                line = "%s%s = N %d %s%s" % (lead, t, idx, ln, trail)
                _token_case(ctx, order, line, "N", idx <= 7, len(t) <= 8)
        elif kind == "S":
            for idx, ln in itertools.product((0, 1, 2, 3, 64), LENGTHS):
                line = "%s%s = S %d %s%s" % (lead, t, idx, ln, trail)
                _token_case(ctx, order, line, "S", idx == 2, len(t) <= 8)
        else:
            for word in ("solo", "soloend", "x", "a=b", '"q"', "é日♪", "[x]", "N", "two words", "tail ", "so\ufefflo", "x\u200by", "x\u00a0y", "\ufeffx") + tuple(w for w in UNICODE_TRAPS + FORMAT_TRAPS if " " not in w):
                line = "%s%s = E %s%s" % (lead, t, word, trail)
                _token_case(ctx, order, line, "E", " " not in word, len(t) <= 8)


def _token_case(ctx, order, line, k, canonical, e2e_ok):
    exp = decode(line)
    if (exp is not None and exp[0] == k) != canonical and not (k == "E" and line.rstrip(" \t").endswith("tail")):
        linelang.fault("generator and reference decoder disagree on %r" % line)
    check_line(ctx, order, line, "token product")
    if exp is None:
        # non-lines must not produce an event of these kinds: end-to-end (the model predicts a skipped line)
        gk, gd = linelang.claimant("track", line, order)
        if gk not in (None, "<no-api>") and not isinstance(gd, tuple) and not (k == "E"):
            _report_line(ctx, order, line, None, None, gk, datum_fields(gk, gd), "accepts-non-line", "token product (shape the statement excludes)")
    elif e2e_ok:
        check_e2e(ctx, e2e_body(line), "token product")


def _groups(ctx, kind):
    """2-3 lines of one kind in one section, within one and across tempo segments."""
    sync = ("0 = TS 4", "0 = B 120000", "10 = B 60000", "20 = B 240000")
    mkline = dict(N=lambda t, i: "%d = N %d %d" % (t, i % 5, i), S=lambda t, i: "%d = S 2 %d" % (t, i + 1), E=lambda t, i: "%d = E ev%d" % (t, i))[kind]
    T = (0, 1, 5, 9, 10, 11, 15, 19, 20, 21, 25)
    for n in (2, 3) if TIER != "thorough" else (2, 3, 4):
        for ticks in itertools.combinations(T, n):
            body = [mkline(t, i) for i, t in enumerate(ticks)]
            check_e2e(ctx, body, "%d %s lines at ticks %r" % (n, kind, ticks), sync=sync)
            padded = [("  " if i % 2 else "\t") + ln + (" " if i % 2 else "") for i, ln in enumerate(body)]
            check_e2e(ctx, padded, "%d padded %s lines at ticks %r" % (n, kind, ticks), sync=sync)


NEAR_MISS = ("2 = S 64 5", "2 = S 0 1", "2 = N 8 0", "2 = E two words", "", "garbage", "2 = S 2", "2 = N 0", '2 = E "section a"', "{", "}", "50% x")


def _shared_text(ctx):
    """A string that BOTH the events section and an instrument section recognise (a quoted one-word event) written
    identically in both: each section decodes it as its own kind; also lines of the sync / events section repeated
    verbatim in the track (there they are near-misses)."""
    for w in ('"solo"', '"x"', '"é"'):
        for t in (2, 768):
            ln = "%d = E %s" % (t, w)
            for evs, body in (([ln], [ln]), ([ln, ln], ["1 = N 0 0", ln, "%d = E after" % (t + 1)]), (['1 = E "section a"', ln], [ln, ln])):
                check_e2e(ctx, body, "line %r written identically in [Events] and in the track" % ln, events=evs)
    check_e2e(ctx, ["0 = TS 4", "0 = B 1000000000", "2 = N 1 0"], "sync lines repeated verbatim in the track")
    # the other direction: a canonical track line ALSO written (where it is unparsable) in [Events] / [SyncTrack] of
    # the same chart - in the track it is still decoded, with the same padding and with another
    for g in ("2 = N 3 4", "2 = S 2 7", "2 = E solo", "768 = N 7 0", "  5 = N 6 0 ", "\t9 = E a%b"):
        body = ["1 = N 0 0"] + (["5 = N 2 1"] if " N 6 " in g else []) + [g, "999 = E after"]
        for evs, syn in (([g], ()), ((), (g,)), ([g, g], (g,)), ([g.strip()], (g.strip() + " ",))):
            check_e2e(ctx, body, "line %r written identically in %s and in the track" % (g, "[Events]" if evs and not syn else "[SyncTrack]" if not evs else "[Events] and [SyncTrack]"), sync=("0 = TS 4", "0 = B 1000000000") + tuple(syn), events=evs)


def _foreign_digits(ctx):
    """An index written with a NON-ASCII decimal digit is not one of 0..7 / not the literal 2: such lines
    never produce an event (ticks and lengths in other scripts stay outside the alphabet, DESIGN.md 2.1)."""
    try:
        order = linelang.dispatch_order(linelang.analyse("track", KINDS))
    except A.Unsupported:
        order = linelang.kind_classes("track")
    for d in ("\uff10", "\uff13", "\uff17", "\u0660", "\u0967", "\u09ea", "\U0001d7d0"):
        for line in ("0 = N %s 0" % d, "  5 = N %s 12 " % d, "0 = S %s 5" % d):
            text = mk(res=960, sync=["0 = TS 4", "0 = B 1000000000"], tracks={"ExpertSingle": ["0 = N 1 0", line, "9 = E e"]})
            ctx.case(("foreign-digit", line), sample=dict(line=line))
            ctx.evaluations += 1
            e1.check_model(ctx, "accepts-non-line", text, refmodel.model(text), msg="index written with the non-ASCII digit U+%04X: line %r" % (ord(d), line), drop=DROP)


def _twins(ctx):
    """Near-misses that differ from a canonical line of the SAME chart (or of a chart parsed just before) only in
    their separators: a doubled blank, a TAB, a missing blank. Alone they are not lines; they stay non-lines when
    their canonical twin - same tick, index, length / word - was decoded a moment ago (memo tables keyed by the
    fields of a line)."""
    good = dict(N="2 = N 3 4", S="2 = S 2 7", E="2 = E solo")
    for k, g in good.items():
        toks = g.split(" ")
        variants = []
        for i in range(1, len(toks)):
            for sep in ("  ", "\t", " \t", ""):
                if k == "E" and i == len(toks) - 1 and "\t" in sep and sep != "\t":
                    continue  # a TAB inside the word of an E line is a declared grey zone (DESIGN.md 3.4)
                variants.append(" ".join(toks[:i]) + sep + " ".join(toks[i:]))
        variants += [g.replace(" = ", " =  "), g.replace("=", "=="), g.replace(" = ", " : "), g.lower() if g.lower() != g else g.upper()]
        for v in variants:
            if v == g:
                continue
            for body in ([v], [g, v], [v, g], [g, v, g.replace("2 =", "5 =")], [g, "  " + v, v + " "]):
                check_e2e(ctx, body, "separator variant %r of the canonical %s line %r" % (v, k, g))
            # the twin sits in ANOTHER track (parsed earlier / later in the same parse)
            for tracks in ([("ExpertSingle", [g]), ("HardDrums", [v, "9 = N 0 0"])], [("HardDrums", [v]), ("ExpertSingle", [g])]):
                text = mk(res=960, sync=["0 = TS 4", "0 = B 1000000000"], tracks=tracks)
                ctx.case(("e2e", text), sample=lambda: dict(tracks=tracks))
                ctx.evaluations += 1
                e1.check_model(ctx, "must-decode-end-to-end", text, refmodel.model(text), msg="separator variant %r in another track than its canonical twin %r" % (v, g), drop=DROP)


def _nearmiss(ctx):
    """Lines of another shape around decoded lines: they never produce an event of these kinds, and
    the decoded lines next to them are decoded exactly once."""
    good = dict(N="2 = N 3 4", S="2 = S 2 7", E="2 = E solo")
    for k, g in good.items():
        for nm in NEAR_MISS:
            for body in ([g, nm], [nm, g], [g, nm, nm], [g, nm, g.replace("2 =", "5 =")], ["0 = N 0 0", g, nm, "9 = E end"], [good["S"], good["E"], nm, g.replace("2 =", "6 =")]):
                check_e2e(ctx, body, "near-miss line %r next to a %s line" % (nm, k))


def _headers(ctx):
    """'In an instrument section': every one of the 40 section headers, a body with every N index 0..7, S 2 and E
    lines (flag lines on lane notes, on an open note, on a chord, with and without a length)."""
    from ..refmodel import TRACK_HEADERS

    bodies = (
        ["0 = N 0 0", "2 = N 3 4", "2 = N 5 0", "4 = N 1 1", "4 = N 6 0", "6 = N 7 3", "8 = S 2 7", "9 = E solo", "10 = N 2 0", "10 = N 4 0", "10 = N 5 0", "10 = N 6 0", "12 = N 7 0", "12 = N 6 0"],
        ["1 = N 4 2", "3 = N 2 0", "3 = N 6 0", "5 = N 1 9", "5 = N 5 5", "7 = N 0 0", "7 = N 5 1", "7 = N 6 2"],
        ["0 = E a", "0 = S 2 0", "0 = N 1 0", "0 = N 6 0", "1 = N 1 0", "1 = N 5 0"],
    )
    for h in TRACK_HEADERS:
        for b in bodies:
            # the strum / HOPO / tap state stays in the comparison here: it is the only public trace of a decoded flag datum
            check_e2e(ctx, b, "section [%s]" % h, header=h, drop=("sp",))
            check_e2e(ctx, [x + " " for x in b], "section [%s], lines padded" % h, header=h, drop=("sp",))


def _runs(ctx):
    """Canonical lines behind (and between) long RUNS of lines of another shape: every one of them is still
    decoded, however many unrecognised lines the section has seen before."""
    good = ["%d = N %d %d" % (10 + 2 * i, i % 5, i) for i in range(6)] + ["30 = S 2 7", "31 = E solo", "33 = N 7 2", "33 = N 5 0"]
    for n in (99, 100, 101, 128, 257, 1000, 1025):
        for nm in (NEAR_MISS[0], NEAR_MISS[2], NEAR_MISS[5], None):
            run = [(nm if nm is not None else NEAR_MISS[i % len(NEAR_MISS)]) for i in range(n)]
            check_e2e(ctx, run + good, "%d unrecognised lines (%r...) in front of canonical lines" % (n, run[0]))
            check_e2e(ctx, good[:3] + run + good[3:], "%d unrecognised lines (%r...) between canonical lines" % (n, run[0]))
            check_e2e(ctx, good[:3] + run[: n // 2] + good[3:6] + run[n // 2 :] + good[6:], "%d unrecognised lines (%r...) in two runs between canonical lines" % (n, run[0]))


BLOCK_TRACK = [("%d = N %d %d" % (24 * i, i % 5, 3 * (i % 4)), "%d = N 7 %d" % (24 * i, i), "%d = S 2 %d" % (24 * i, 10 + i), "%d = E solo%d" % (24 * i, i), "%d = N %d 0" % (24 * i, (i + 2) % 5), "%d = N 6 0" % (24 * i))[i % 6] for i in range(36)]


def _block_text(pad):
    return mk(res=192, song_extra=['Name = "%s"' % ("x" * pad)], sync=["0 = TS 4", "0 = B 120000", "300 = B 90000"], events=['0 = E "section a"'], tracks=[("ExpertSingle", BLOCK_TRACK), ("HardDrums", ["5 = N 1 0"])])


def replay(case):
    if "shape" in case:
        return e1.replay_model_case(case, "track-line-at-block-boundary")
    order = linelang.kind_classes("track")
    try:
        order = linelang.dispatch_order(linelang.analyse("track", KINDS))
    except A.Unsupported:
        pass
    if case.get("kind") == "line":
        gk, gd = linelang.claimant("track", case["line"], order)
        if gk == "<no-api>":
            return []
        got = None if gk is None else (list(gd) if isinstance(gd, tuple) else datum_fields(gk, gd))
        if case["expected_kind"] is None:
            bad = gk is not None and not (isinstance(got, list) and got[:1] == ["raises"])
        else:
            bad = (gk, got) != (case["expected_kind"], case["expected"])
        return [dict(key="must-decode", msg="still fails: %r %r" % (gk, got), case=case)] if bad else []
    if case.get("kind") == "e2e-none":
        text = mk(res=960, sync=["0 = TS 4", "0 = B 1000000000"], tracks={"ExpertSingle": [case["line"]]})
        got = impl.model_outcome(text, "file", None, (), "model")
        if got[0] != "ok":
            return []
        tr = got[1]["tracks"].get("GUITAR/EXPERT", {})
        n = dict(N=len(tr.get("notes", [])), S=len(tr.get("phrases", [])), E=len(tr.get("events", [])))
        return [dict(key="accepts-non-line", msg="still produces an event", case=case)] if n[case["k"]] else []
    return e1.replay_model_case(case, "must-decode-end-to-end")
