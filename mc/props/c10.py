"""C10 - metadata fields decode independently, verbatim, with documented defaults (E3 + E1)."""

from __future__ import annotations

import itertools

from .. import automata as A
from .. import envs, blocks, e1, impl, refmodel
from ..chartgen import COMMENT_TRAPS, FORMAT_TRAPS, RAW, UNICODE_TRAPS, mk
from ..linelang import BL

ID = "C10"
LEVEL = "model_checking"
ENGINE = "E3 pairwise disjointness + inclusion products of the 24 captured field recognisers + E1 enumeration"
RULE = (
    "E3: the captured [Song] recognisers are attributed to fields by canonical lines; all 276 pairwise products must have an "
    "empty intersection (no string of any length is claimed by two fields) and L_must(F) <= L(F) for every field; one witness "
    "per product transition replayed through a real [Song] section. E1: every subset of <= 2 optional fields and its complement "
    "x line orders; every string of length <= 3 over {a,\",space,=,e-acute} as the value of every string field; adversarial "
    "values; integers; absent Resolution. distinct = distinct [Song] body; non-trivial = all"
)
ASSUMPTIONS = [
    "documented defaults are those of the Metadata field documentation (DESIGN.md 3.11)",
    "grey (unconstrained): unquoted string values, quoted integers, blanks after the value",
]

STRING_FIELDS = list(refmodel.STRING_FIELDS)
INT_FIELDS = list(refmodel.INT_FIELDS)
ALL_FIELDS = INT_FIELDS[:2] + ["Player2"] + INT_FIELDS[2:] + STRING_FIELDS  # 24, Resolution first
OPTIONAL = [f for f in ALL_FIELDS if f != "Resolution"]
DROP = ("sync", "globals", "tracks", "instruments")


def canon(f, k=0):
    if f in refmodel.STRING_FIELDS:
        return '%s = "v%d %s"' % (f, k, f)
    if f == "Player2":
        return "Player2 = rhythm"
    return "%s = %d" % (f, 3 + k)


def must(f):
    if f in refmodel.STRING_FIELDS:
        return rf"^{BL}*{f} = \".+\"$"
    if f == "Player2":
        return rf"^{BL}*Player2 = (bass|rhythm)$"
    return rf"^{BL}*{f} = [0-9]+$"


def setup():
    envs.enable(16)  # E1-M: every 16th model-equality case again under every environment of mc/envs.py
    impl.load()


def plan(tier, seed):
    L = 3 if tier == "quick" else 4
    shards = [("pairs", i) for i in range(24)] + [("inclusion",)]
    shards += [("subsets", 0), ("subsets", 1), ("subsets", 2), ("subsets", 3)]
    shards += [("values", f, L) for f in STRING_FIELDS]
    shards += [("twice", i) for i in range(4)] + [("crowded", i) for i in range(4)]
    shards += [("blocks", B, part) for B in blocks.BLOCKS for part in range(4)]
    shards += [("adversarial",), ("samevalue", 0), ("samevalue", 1), ("samevalue", 2)]
    return dict(shards=shards, bounds=dict(alphabet_size=len(A.SIGMA), value_length=L, subset_size=2), budget_s=900)


def attribute():
    """{field: captured compiled pattern} through canonical lines; raises Unsupported if impossible."""
    pats = A.capture_song()
    out = {}
    for f in ALL_FIELDS:
        ms = [p for p in pats if A.applies(p, canon(f))]
        if len(ms) != 1:
            raise A.Unsupported("field %s: %d captured recognisers accept its canonical line" % (f, len(ms)))
        out[f] = ms[0]
    return out, pats


def check_song(ctx, song, why, key="metadata"):
    text = mk(song=song)
    try:
        res = refmodel.model(text)
    except refmodel.OutOfDomain as e:
        from ..core import HarnessFault

        raise HarnessFault("generator left the model's domain: %s %r" % (e, song))
    ctx.case(text, sample=lambda: dict(song_body=song, why=why))
    ctx.evaluations += 1
    ctx.hist["rejected" if res.kind == "err" else "decoded"] += 1
    e1.check_model(ctx, key, text, res, msg="%s: [Song] body %r" % (why, song), drop=DROP)
    if not text.isascii() and len(text) < 4000 and len(song) <= 3:
        for via in ("path", "path-bom"):
            ctx.evaluations += 1
            e1.check_model(ctx, key, text, res, via=via, msg="%s (entry point %s): [Song] body %r" % (why, via, song), drop=DROP)


def run_shard(shard, ctx):
    kind = shard[0]
    if kind in ("pairs", "inclusion"):
        try:
            by_field, pats = attribute()
        except A.Unsupported as e:
            ctx.hist["E3_unavailable(%s): bounded enumeration only" % e] += 1
            ctx.extra["e3"] = "unavailable: %s" % e
            return
        try:
            if kind == "pairs":
                _pairs(ctx, by_field, shard[1])
            else:
                _inclusion(ctx, by_field)
        except A.Unsupported as e:  # e.g. recognisers compiled with flags the translator does not model
            ctx.hist["E3_unavailable(%s): bounded enumeration only" % e] += 1
            ctx.extra["e3"] = "unavailable: %s" % e
    elif kind == "subsets":
        _subsets(ctx, shard[1])
    elif kind == "values":
        _values(ctx, shard[1], shard[2])
    elif kind == "samevalue":
        _samevalue(ctx, shard[1])
    elif kind == "twice":
        _twice(ctx, shard[1])
    elif kind == "crowded":
        _crowded(ctx, shard[1])
    elif kind == "blocks":
        blocks.sweep(ctx, "field-at-block-boundary", _block_text, "Song", blocks=(shard[1],), part=shard[2], parts=4, drop=(), vias=("file",) if shard[1] > 8192 else ("file", "path"))
    else:
        _adversarial(ctx)


def _pairs(ctx, by_field, i):
    f = ALL_FIELDS[i]
    nf = A.from_compiled(by_field[f])
    for gname in ALL_FIELDS[i + 1 :]:
        g = A.explore([nf, A.from_compiled(by_field[gname])])
        ctx.nodes += len(g.states)
        ctx.edges += g.transitions
        ctx.evaluations += 1
        ctx.hist["disjointness_products"] += 1
        both = [g.wit[k] for k, acc in enumerate(g.acc) if all(acc)]
        if both:
            w = both[0]
            # replay: the line really sets both fields
            song = ["Resolution = 192", w] if "Resolution" not in (f, gname) else [w]
            text = mk(song=song)
            got = impl.model_outcome(text, "file", None, DROP, "model")
            base = refmodel.DEFAULTS
            if got[0] == "ok":
                md = got[1]["metadata"]
                changed = [k for k in md if k != "resolution" and md[k] != base.get(k)] + (["resolution"] if "Resolution" in (f, gname) else [])
                if len(changed) >= 2:
                    ctx.violation("fields-overlap", dict(text=text, kind="overlap"), "line %r is claimed by the recognisers of both %s and %s and sets %r" % (w, f, gname, changed), expected="one field", observed=md, script=e1.script(text, "def probe(c):\n    m = c.metadata\n    n = sum(1 for k, v in vars(m).items() if v != getattr(type(m), k, None) and k != 'resolution')\n    return 'at most one field set' if n <= 1 else '%d fields set by one line' % n", ["at most one field set"]))


def _inclusion(ctx, by_field):
    total = 0
    for f in ALL_FIELDS:
        nf = A.from_compiled(by_field[f])
        nm = A.compile_re(must(f))
        g = A.explore([nf, nm])
        ctx.nodes += len(g.states)
        ctx.edges += g.transitions
        ctx.hist["inclusion_products"] += 1
        dfa = A.DFA(nf)
        total += A.conform_fast(by_field[f], dfa, A.short_strings(g.reps, 4 if g.nclasses > 12 else 5))
        cands = [g.wit[k] for k, acc in enumerate(g.acc) if acc[1] and not acc[0]]
        wits = A.witnesses(g, [lambda acc: acc[1]])
        total += A.conform_fast(by_field[f], dfa, wits)
        for w in cands[:3] + wits:
            if A.accepts(nm, w) and len(w) < 80:
                song = [w] if f == "Resolution" else ["Resolution = 192", w]
                check_song(ctx, song, "field %s: %s" % (f, "product automaton counterexample" if w in cands[:3] else "witness of a product transition"), key="must-decode")
    ctx.extra["translator_vs_regex_engine_strings"] = total


def field_line(f, k):
    return canon(f, k)


def _subsets(ctx, part):
    subsets = [()] + [(f,) for f in OPTIONAL] + list(itertools.combinations(OPTIONAL, 2))
    for si, sub in enumerate(subsets):
        if si % 4 != part:
            continue
        ctx.node()
        for chosen in (list(sub), [f for f in OPTIONAL if f not in sub]):
            lines = ["Resolution = 480"] + [field_line(f, k) for k, f in enumerate(chosen)]
            if len(lines) <= 4:
                orders = list(itertools.permutations(lines))
            else:
                orders = [lines, lines[::-1]] + [lines[r:] + lines[:r] for r in (1, len(lines) // 2, len(lines) - 1)]
            for o in orders:
                check_song(ctx, list(o), "fields %r" % (chosen if len(chosen) <= 3 else "all but %r" % (list(sub),)))
            # the same without Resolution: MissingRequiredField
            if len(lines) <= 3:
                check_song(ctx, lines[1:], "no Resolution line; fields %r" % chosen)


VAL_ALPHA = ("a", '"', " ", "=", "é", "/")


def _values(ctx, f, L):
    for n in range(1, L + 1):
        for tup in itertools.product(VAL_ALPHA, repeat=n):
            if ctx.out_of_time():
                return
            v = "".join(tup)
            check_song(ctx, ["Resolution = 192", '%s = "%s"' % (f, v)], "value %r of %s" % (v, f))


def _samevalue(ctx, part):
    """Two fields carrying the SAME inner text: no field's line may influence another field, so a
    digits-only string stays a string next to an equal number, 'bass' stays a string next to Player2."""
    def line(f, v):
        return '%s = "%s"' % (f, v) if f in refmodel.STRING_FIELDS else "%s = %s" % (f, v)

    pairs = [(f, g) for f in ALL_FIELDS for g in ALL_FIELDS if f != g]
    for k, (f, g) in enumerate(pairs):
        if k % 3 != part:
            continue
        ctx.node()
        for v in ("7", "192", "0", "bass", "rhythm"):
            ok = lambda fld: (fld in refmodel.STRING_FIELDS) or (fld == "Player2" and v in ("bass", "rhythm")) or (fld in refmodel.INT_FIELDS and v.isdigit() and not (fld == "Resolution" and v == "0"))  # noqa: E731
            if not (ok(f) and ok(g)):
                continue
            song = [line(f, v), line(g, v)]
            if "Resolution" not in (f, g):
                song = ["Resolution = 480"] + song
            check_song(ctx, song, "fields %s and %s carry the same text %r" % (f, g, v))
            # and the same collision across two charts parsed one after the other (process-wide state)
            a = [line(f, v)] + ([] if f == "Resolution" else ["Resolution = 480"])
            b = [line(g, v)] + ([] if g == "Resolution" else ["Resolution = 480"])
            check_song(ctx, a, "field %s = %r (first of two charts)" % (f, v))
            check_song(ctx, b, "field %s = %r right after a chart with %s = %r" % (g, v, f, v))


def _twice(ctx, part):
    """A field written twice: its FIRST line decides, wherever the lines of the other fields sit. Every arrangement
    of {first copy, second copy, Resolution, one other field} for every field and three kinds of neighbour."""
    for k, f in enumerate(ALL_FIELDS):
        if k % 4 != part:
            continue
        for g in ("Offset", "Artist", "Player2", "Resolution"):
            if g == f:
                continue
            ctx.node()
            if f == "Resolution":
                lines = ["Resolution = 192", "Resolution = 480", canon(g, 4), canon("Genre" if g != "Genre" else "Year", 6)]
            else:
                second = canon(f, 2) if f != "Player2" else "Player2 = bass"
                lines = [canon(f, 1), second, canon(g, 4)] + (["Resolution = 192"] if g != "Resolution" else ['Album = "x"'])
            for o in itertools.permutations(range(len(lines))):
                check_song(ctx, [lines[i] for i in o], "field %s given twice (arrangement %r with %s)" % (f, o, g))
            if f in INT_FIELDS and f != "Resolution" and g == "Offset" or (f == "Offset" and g == "Artist"):
                # "falsy" first values: a first copy saying 0 (or an empty-looking string) is still the first copy
                for v1, v2 in (("0", "5"), ("00", "7"), ("5", "0")):
                    for tail in ([], [canon(g, 4)]):
                        check_song(ctx, ["Resolution = 192", "%s = %s" % (f, v1)] + tail + ["%s = %s" % (f, v2)], "field %s given twice, first value %s" % (f, v1))


def _crowded(ctx, part):
    """Sections with MORE lines than there are fields: all 24 fields (every rotation, so that each field is last in
    turn) plus repeated lines of one or two fields in front, in the middle and at the end, plus foreign lines. The
    first line of every field still decides, every field is still read."""
    full = [canon(f, 1) if f != "Resolution" else "Resolution = 480" for f in ALL_FIELDS]
    for r in range(len(full)):
        if r % 4 != part:
            continue
        rot = full[r:] + full[:r]
        ctx.node()
        for g in ALL_FIELDS:
            again = canon(g, 7) if g != "Resolution" else "Resolution = 96"
            if again in rot:  # Player2 has one canonical spelling here
                again = "Player2 = bass"
            i = rot.index(canon(g, 1) if g != "Resolution" else "Resolution = 480")
            # repeated copies BEHIND the first one only (the first line of a field decides): right behind it, in
            # the middle of the rest, at the very end - and verbatim repeats of the first line
            for pos in sorted({i + 1, (i + 1 + len(rot)) // 2, len(rot) - 1}):
                check_song(ctx, rot[:pos] + [again] + rot[pos:], "all 24 fields plus a second %s line (25 field lines)" % g)
            check_song(ctx, rot[: i + 1] + [rot[i]] + rot[i + 1 :], "all 24 fields, the %s line written twice verbatim" % g)
            check_song(ctx, rot[: i + 1] + [again, again] + rot[i + 1 : -1] + [again] + rot[-1:], "all 24 fields plus three more %s lines" % g)
        noise = ["garbage", "0 = B 120000", "Foo = 3", ""]
        check_song(ctx, noise + rot, "4 foreign lines in front of all 24 fields")
        check_song(ctx, rot[:12] + noise * 6 + rot[12:], "24 foreign lines in the middle of all 24 fields")
        check_song(ctx, [ln for x in rot for ln in (x, "x = y")], "a foreign line behind every one of the 24 fields")




def _adversarial(ctx):
    # two [Song] sections whose lines CONCATENATE to the same text with different line boundaries, parsed one after
    # the other in both orders (the second field's whole line, indentation included, is the tail of the first value)
    for f, g in (("Name", "Artist"), ("Artist", "Name"), ("Genre", "Charter"), ("Album", "Year")):
        gl = '%s = "y"' % g if g in STRING_FIELDS else "%s = 7" % g
        two = ["Resolution = 192", '%s = "x"' % f, gl]
        one = ["Resolution = 192", '%s = "x"  %s' % (f, gl)]
        for seq in ((two, one), (one, two), (two, one, two)):
            for song in seq:
                check_song(ctx, song, "sections with the same concatenated text and other line boundaries, parsed one after the other")
    for f in STRING_FIELDS:
        others = [g for g in ALL_FIELDS if g != f]
        for g in others:
            # another field's whole line as the value; with and without that field's own line around
            v = canon(g)
            check_song(ctx, ["Resolution = 192", '%s = "%s"' % (f, v)], "value of %s is the line of %s" % (f, g))
            if g != "Resolution":
                check_song(ctx, ['%s = "%s"' % (f, v), "Resolution = 192", canon(g, 5)], "value of %s is the line of %s, followed by the real line" % (f, g))
        for v in (" lead", "trail ", " both ", '""', '"q"', 'a""b', "x = y", f + " = z", "日本 ♪", "tab\tin", "a\ufeffb", "\ufeff", "\ufeffx\ufeff", "x\u00a0y", "\u200b", "日\u3000本", "e\u0301", "\U0001f3b8") + COMMENT_TRAPS + UNICODE_TRAPS + FORMAT_TRAPS:
            check_song(ctx, ["Resolution = 192", '%s = "%s"' % (f, v)], "adversarial value %r of %s" % (v, f))
    for f in INT_FIELDS:
        for v in ("0", "00", "7", "007", "99999999", "123456789012345678901234"):
            if f == "Resolution":
                # 0 is a present, well-formed value: it is DECODED (and the chart then rejected as non-positive
                # resolution, ValueError) - never reported as a missing field
                check_song(ctx, ["Resolution = %s" % v], "integer %s" % v)
                check_song(ctx, ['Name = "n"', "Resolution = %s" % v, "Offset = 0"], "integer %s" % v)
            else:
                check_song(ctx, ["Resolution = 192", "%s = %s" % (f, v)], "integer %s of %s" % (v, f))
    for v in ("bass", "rhythm"):
        check_song(ctx, ["Player2 = " + v, "Resolution = 192"], "Player2")
        check_song(ctx, ["\tPlayer2 = " + v, "  Resolution = 192"], "Player2 padded")
    # very long values (block / buffer thresholds)
    for n_ in (255, 256, 4095, 4096, 65535, 65536, 70001):
        check_song(ctx, ["Resolution = 192", 'Name = "%s"' % ("x" * (n_ - 1) + "y"), 'Charter = "%s"' % ("ab " * (n_ // 3))], "values of about %d characters" % n_)
    # the first line of a field wins, whatever follows
    for f in ("Name", "Offset", "Charter"):
        check_song(ctx, ["Resolution = 192", canon(f, 1), canon(f, 2)], "field %s given twice" % f)
    # indentation differs from line to line (no line's indentation says anything about another line's)
    three = ["Resolution = 192", 'Name = "Artist = "y""', "Difficulty = 4", "Player2 = rhythm"]
    for ind in itertools.product(("", " ", "  ", "    ", "\t", "          "), repeat=3):
        song = [RAW + ind[0] + three[0], RAW + ind[1] + three[1], RAW + ind[2] + three[2], RAW + ind[(len(ind[0]) + len(ind[1])) % 3] + three[3]]
        check_song(ctx, song, "indentation %r" % (ind,))
        check_song(ctx, song[::-1], "indentation %r" % (ind[::-1],))
    # field names are case-sensitive: a line whose name differs in letter case is not that field's line
    for f in ALL_FIELDS:
        for nm in (f.lower(), f.upper(), f.swapcase()):
            if nm != f:
                check_song(ctx, ["Resolution = 192", canon(f, 1).replace(f, nm, 1)] + ([canon(f, 2)] if f != "Resolution" else []), "field name %s written %s" % (f, nm))
    # leading blanks of every kind
    for pad in ("", " ", "\t", " \t  "):
        check_song(ctx, [pad + "Resolution = 192"] + [pad + canon(f, 1) for f in OPTIONAL], "leading blanks %r" % pad)


def _block_text(pad):
    from ..chartgen import section

    return section("Padding", ["x" * pad]) + mk(song=["Resolution = 192"] + [canon(f, k) for k, f in enumerate(OPTIONAL)])


def replay(case):
    if case.get("shape") == "full":
        return e1.replay_model_case(case, "field-at-block-boundary")
    if case.get("kind") == "overlap":
        got = impl.model_outcome(case["text"], "file", None, DROP, "model")
        if got[0] != "ok":
            return []
        md = got[1]["metadata"]
        changed = [k for k in md if k != "resolution" and md[k] != refmodel.DEFAULTS.get(k)]
        return [dict(key="fields-overlap", msg="still sets %r" % changed, case=case)] if len(changed) >= 2 else []
    return e1.replay_model_case(case, "metadata")
