"""C06 - sections are framed and routed to the right parser and track key (engine E1)."""

from __future__ import annotations

import itertools

from .. import envs, e1, impl, refmodel
from ..chartgen import HEADERS, INSTRUMENTS, section

ID = "C06"
LEVEL = "model_checking"
ENGINE = "E1 bounded-exhaustive generation-tree explorer"
RULE = (
    "(a) all permutations of the sections of a rich 5- (thorough: 6-) section chart x {LF,CRLF} x {from_file, from_filepath, "
    "from_filepath+BOM}; (b) each of the 40 headers alone, all 780 pairs, all 2^10 instrument subsets, all 40; (c) 0-2 unknown "
    "sections (4 names x 3 bodies) at every position; (d) every proper subset of the required sections; each parsed and compared "
    "with the reference model (projection without HOPO/star-power/sustain fields) and by warning-count differences; "
    "distinct = distinct (text, entry point); non-trivial = all"
)
ASSUMPTIONS = [
    "unknown-section bodies exclude a bare '}' line (DESIGN.md 3.7); BOM independence only via from_filepath (3.6)",
    "warnings are only counted and compared differentially (k unknown sections add k records)",
    "fields owned by C03/C04/C05 are projected out of the comparison",
]

DROP = ("hopo", "sp", "sustain", "longest", "end_tick")

SONG = ("Song", ["Resolution = 192", 'Name = "Nm"', 'Artist = "Ar tist"', "Offset = 3", "Player2 = rhythm"])
SYNC = ("SyncTrack", ["0 = TS 4", "0 = B 120000", "96 = TS 3 3", "192 = B 90000", "200 = A 1500000", "384 = B 150000", "400 = TS 7 1", "500 = TS 5"])
EVENTS = (
    "Events",
    ['0 = E "section intro"', '10 = E "lyric la"', '20 = E "txt"', '30 = E "lyric lu"', '192 = E "section verse"', '250 = E "lyric li"', '390 = E "end"', '500 = E "section out"'],
)
TRACK_A = (
    "ExpertSingle",
    ["0 = N 0 0", "0 = N 1 0", "0 = S 2 100", "48 = N 2 24", "48 = E solo", "96 = N 7 0", "192 = N 3 0", "192 = N 6 0", "240 = N 4 200", "300 = S 2 50", "310 = N 0 0", "400 = E soloend", "450 = N 1 0"],
)
TRACK_B = ("HardDrums", ["5 = N 1 0", "100 = N 2 0", "100 = N 3 0", "200 = S 2 10", "205 = N 0 7", "395 = N 4 0", "600 = N 7 0"])
TRACK_C = ("EasyKeyboard", ["7 = E ev", "9 = N 2 1", "193 = N 2 1", "385 = N 0 0"])
TRACK_D = ("MediumGHLCoop", ["1 = S 2 3", "2 = N 4 0", "383 = N 3 2", "385 = E x"])

UNKNOWN_NAMES = ("Foo", "ExpertSingle ", "expertsingle", "Song2", "Song]", "Events][old", "ExpertSingle][backup", "MediumKeyboard] x", "[SyncTrack", "XSong", "Expert Single", "ExpertSingle2", "ExpertSingl", "Events2", "SyncTrack ", "ExpertVocals", "\ufeffSong", "Expert\ufeffSingle", "Events\ufeff", "Sync\u200bTrack", "Song\u00a0")
# (body lines, indentation)
UNKNOWN_BODIES = (
    (["Resolution = 1", "0 = B 1", "0 = N 0 0", '0 = E "section q"'], "  "),
    (["[Song]", "{", "0 = TS 9", "garbage"], ""),
    ([], "  "),
    (["a = b", "} ", "[EasyKeyboard]", "{ ", "0 = N 3 0", "}\t", " }", "c = d"], ""),
    (["foo", "", "baz", "   ", "", "\t", "0 = N 1 0", ""], ""),
    (["a = b", "}\ufeff", "\ufeff}", "[Song]\ufeff", "\u200b}", "{\ufeff", "0 = N 3 0", "c = d"], ""),
)
VIAS = ("file", "path", "path-bom", "path-str", "path-reuse")  # path-reuse: another chart of equal size read from the same path (same mtime) just before


def setup():
    envs.enable(32)  # E1-M: every 32th model-equality case again under every environment of mc/envs.py
    impl.load()


def render(secs, nl="\n"):
    out = []
    for s in secs:
        name, body = s[0], s[1]
        ind = s[2] if len(s) > 2 else "  "
        out.append(section(name, body, nl, ind))
    return "".join(out)


def header_body(k):
    return ["%d = N %d %d" % (k + 1, k % 5, k), "%d = E e%d" % (k + 2, k)]


def plan(tier, seed):
    shards = []
    nperm = 6 if tier == "quick" else 7
    for first in range(nperm):
        for nl in ("\n", "\r\n"):
            shards.append(("perm", nperm, first, nl))
    shards += [("single",), ("all40",), ("required",)]
    for i in range(0, 40, 4):
        shards.append(("pairs", i))
    for lo in range(0, 1024, 128):
        shards.append(("subsets", lo))
    for n1 in range(len(UNKNOWN_NAMES)):
        shards.append(("unknown", n1, tier))
    for nl in ("\n", "\r\n"):
        for lo in range(0, 28, 4):
            shards.append(("big", nl, lo, 1))
    for nl in ("\n",) if tier == "quick" else ("\n", "\r\n"):
        for lo in range(0, 28, 2):
            shards.append(("big", nl, lo, 8))  # about 1.13 * 10^6 characters: beyond 2^20
    return dict(shards=shards, bounds=dict(permuted_sections=nperm, newline=["LF", "CRLF"], entry_points=list(VIAS), unknown_names=list(UNKNOWN_NAMES), unknown_sections_max=2), budget_s=600)


def check(ctx, text, via="file", msg="", sample=None):
    try:
        res = refmodel.model(text)
    except refmodel.OutOfDomain as e:
        from ..core import HarnessFault

        raise HarnessFault("generator left the model's domain: %s" % e)
    ctx.case((text, via), sample=sample)
    ctx.evaluations += 1
    got = e1.check_model(ctx, "routing", text, res, via=via, msg=msg, drop=DROP)
    ctx.hist["rejected" if got[0] == "err" else "parsed"] += 1
    return got


def warn_count(text):
    out = impl.outcome(text)
    return out[2] if out[0] == "ok" else None


def big_text(nl, pad, scale=1):
    """A chart of about 1.4 * 10^5 characters: a long track, a long unknown section and `pad` extra
    characters in the FIRST line of the first unknown section, so that sweeping pad over 0..27 moves every
    later line break across every possible block boundary of any chunked reader."""
    notes = []
    for i in range(6000 * scale):
        notes.append("%d = N %d %d" % (3 * i, i % 5, i % 4))
        if i % 50 == 0:
            notes.append("%d = S 2 7" % (3 * i))
    filler = ["x" * pad + "filler"] + ["line %d of an unknown section" % i for i in range(300)]
    ev = ['%d = E "lyric w%d"' % (5 * i, i) for i in range(1500 * scale)]
    secs = [("Pad", filler[:1]), SONG, ("Foo", filler[1:100]), SYNC, ("Events", ev), ("ExpertSingle", notes), ("Bar", filler[1:300]), TRACK_B, ("Baz", filler[1:200])]
    return render(secs, nl)


def run_shard(shard, ctx):
    kind = shard[0]
    if kind == "big":
        _, nl, lo, scale = shard
        for pad in range(lo, lo + (4 if scale == 1 else 2)):
            text = big_text(nl, pad, scale)
            got = check(ctx, text, "file", "chart of %d characters, newline %r, padding %d" % (len(text), nl, pad), sample=lambda: dict(characters=len(text), newline=nl, pad=pad))
            # each parser received exactly its body lines: no line is reported as unparsable in this chart
            # (4 warning records: the four unknown sections)
            w = warn_count(text)
            small = render([("Pad", ["filler"]), SONG, ("Foo", ["a"]), SYNC, EVENTS, TRACK_A, ("Bar", ["b"]), TRACK_B, ("Baz", ["c"])])
            w_small = warn_count(small)  # the same section structure in miniature: differential, wording-free
            ctx.evaluations += 1
            if got[0] == "ok" and w_small is not None and w != w_small:
                ctx.violation("framing-warnings", dict(text=text, kind="addtrack", base=small, k=0), "chart of %d characters (newline %r, padding %d): %d warning records, but %d for the same section structure in miniature - a parser was handed a line that is not a body line of its section" % (len(text), nl, pad, w, w_small), script=_warn_script(small, text, 0))
        return
    if kind == "perm":
        _, n, first, nl = shard
        secs = [SONG, SYNC, EVENTS, TRACK_A, TRACK_B, TRACK_C, TRACK_D][:n]
        rest = [s for i, s in enumerate(secs) if i != first]
        ctx.node()
        for perm in itertools.permutations(rest):
            ctx.node()
            if ctx.out_of_time():
                return
            order = [secs[first]] + list(perm)
            text = render(order, nl)
            for via in VIAS:
                check(ctx, text, via, "section order %r, newline %r, entry point %s" % ([s[0] for s in order], nl, via), sample=lambda: dict(order=[s[0] for s in order], newline=nl, via=via))
    elif kind == "single":
        for k, h in enumerate(HEADERS):
            text = render([SONG, SYNC, EVENTS, (h, header_body(k))])
            check(ctx, text, "file", "single track section [%s]" % h, sample=dict(headers=[h]))
    elif kind == "all40":
        secs = [SONG, SYNC, EVENTS] + [(h, header_body(k)) for k, h in enumerate(HEADERS)]
        check(ctx, render(secs), "file", "all 40 track sections")
        check(ctx, render(secs[::-1]), "file", "all 40 track sections, reversed file order")
        same = [SONG, SYNC, EVENTS] + [(h, header_body(7)) for h in HEADERS]
        check(ctx, render(same), "file", "all 40 track sections with one and the same body")
        check(ctx, render(same[::-1]), "file", "all 40 track sections with one and the same body, reversed file order")
        for k in (2, 3, 5):
            mixed = [SONG, SYNC, EVENTS] + [(h, header_body(i % k)) for i, h in enumerate(HEADERS)]
            check(ctx, render(mixed), "file", "all 40 track sections sharing %d bodies" % k)
    elif kind == "pairs":
        for i in range(shard[1], shard[1] + 4):
            ctx.node()
            for j in range(40):
                if i != j:
                    text = render([SONG, (HEADERS[i], header_body(i)), SYNC, (HEADERS[j], header_body(j)), EVENTS])
                    check(ctx, text, "file", "track sections [%s] then [%s]" % (HEADERS[i], HEADERS[j]), sample=dict(headers=[HEADERS[i], HEADERS[j]]))
                    # the SAME body under both headers (a co-op track copied from the lead): each key still gets its own,
                    # correctly labelled track
                    text = render([SONG, (HEADERS[i], header_body(i)), SYNC, (HEADERS[j], header_body(i)), EVENTS])
                    check(ctx, text, "file", "track sections [%s] then [%s] with identical bodies" % (HEADERS[i], HEADERS[j]), sample=dict(headers=[HEADERS[i], HEADERS[j]], same_body=True))
    elif kind == "subsets":
        for m in range(shard[1], shard[1] + 128):
            hs = [(k, "Expert" + ins) for k, ins in enumerate(INSTRUMENTS) if m >> k & 1]
            text = render([SONG, SYNC, EVENTS] + [(h, header_body(k)) for k, h in hs])
            check(ctx, text, "file", "instrument subset %r" % [h for _, h in hs], sample=dict(headers=[h for _, h in hs]))
    elif kind == "required":
        req = [SONG, SYNC, EVENTS]
        for m in range(7):
            for tracks in ([], [TRACK_A], [TRACK_A, TRACK_B]):
                secs = [s for i, s in enumerate(req) if m >> i & 1] + tracks
                if not secs:
                    continue
                got = check(ctx, render(secs), "file", "required sections present: %r" % [s[0] for s in secs if s in req], sample=dict(sections=[s[0] for s in secs]))
        # a missing required section is reported as ValueError whatever is wrong with the sections that ARE there
        bad_song = [("Song", []), ("Song", ['Name = "x"']), ("Song", ["Resolution = 0"]), ("Song", ["garbage"])]
        bad_sync = [("SyncTrack", []), ("SyncTrack", ["0 = TS 4"]), ("SyncTrack", ["5 = B 1", "0 = TS 4"])]
        for m in range(7):
            for sg in [SONG] + bad_song:
                for sy in [SYNC] + bad_sync:
                    secs = [s_ for i, s_ in enumerate([sg, sy, EVENTS]) if m >> i & 1] + [TRACK_A]
                    for order in (secs, secs[::-1]):
                        check(ctx, render(order), "file", "required sections present: %r (some of them defective)" % [s_[0] for s_ in secs[:-1]], sample=dict(sections=[s_[0] for s_ in order]))
        # ... nor does a LINE that is exactly the missing header, inside the body of another section (a body line is
        # never a header): still ValueError, never an internal error
        for m in range(7):
            missing = [s_[0] for i, s_ in enumerate(req) if not m >> i & 1]
            present = [s_ for i, s_ in enumerate(req) if m >> i & 1]
            quotes = ["[%s]" % n for n in missing]
            for body, ind in ((quotes, ""), (quotes, "  "), (["x"] + quotes + ["{", "y"], ""), ([q_ + " " for q_ in quotes] + quotes, "")):
                for secs in (present + [("Notes to self", body, ind), TRACK_A], [("Notes", body, ind)] + present, present + [TRACK_A, ("Zed", body, ind)]):
                    check(ctx, render(secs), "file", "required sections present: %r; an unknown section quotes the header line(s) %r" % ([s_[0] for s_ in present], quotes), sample=dict(sections=[s_[0] for s_ in secs]))
        # a look-alike unknown section never stands in for a missing required one
        for m in range(7):
            for fake in ("Song]", "SyncTrack]]", "Events][old", "Song2", " Events"):
                secs = [s_ for i, s_ in enumerate(req) if m >> i & 1] + [(fake, dict(S=SONG, Y=SYNC, E=EVENTS)[fake.strip()[0] if fake.strip()[0] in "SE" and not fake.startswith("Sync") else "Y"][1])] + [TRACK_A]
                check(ctx, render(secs), "file", "required sections present: %r plus look-alike [%s]" % ([s_[0] for s_ in secs if s_ in req], fake), sample=dict(sections=[s_[0] for s_ in secs]))
        # adding one more well-formed track section adds no warning record (differential)
        base = [SONG, SYNC, EVENTS, TRACK_A]
        w0 = warn_count(render(base))
        for extra in (TRACK_B, TRACK_C, ("MediumGHLBass", []), ("EasySingle", ["0 = N 0 0"])):
            for pos in range(len(base) + 1):
                secs = base[:pos] + [extra] + base[pos:]
                text = render(secs)
                w1 = warn_count(text)
                ctx.case(("addtrack", text))
                ctx.evaluations += 1
                if w0 is not None and w1 is not None and w1 != w0:
                    ctx.violation("framing-warnings", dict(text=text, kind="addtrack", base=render(base)), "adding well-formed section [%s] at position %d changes the number of warning records from %d to %d (its parser did not receive exactly its body lines)" % (extra[0], pos, w0, w1), script=_warn_script(render(base), text, 0))
    elif kind == "unknown":
        _, n1, tier = shard
        base = [SONG, SYNC, EVENTS, TRACK_A, TRACK_B]
        base_text = render(base)
        w0 = warn_count(base_text)
        name1 = UNKNOWN_NAMES[n1]
        for b1, (body1, ind1) in enumerate(UNKNOWN_BODIES):
            for p1 in range(len(base) + 1):
                ctx.node()
                s1 = base[:p1] + [(name1, body1, ind1)] + base[p1:]
                _unknown_case(ctx, s1, base_text, w0, 1)
                # a second unknown section with the SAME title (other body) anywhere behind the first
                body_same, ind_same = UNKNOWN_BODIES[(b1 + 2) % len(UNKNOWN_BODIES)]
                for p2 in range(p1 + 1, len(s1) + 1):
                    # (reported: once per section or once per title - the statement does not say which)
                    _unknown_case(ctx, s1[:p2] + [(name1, body_same, ind_same)] + s1[p2:], base_text, w0, (1, 2))
                for name2 in UNKNOWN_NAMES[(n1 + 1) % len(UNKNOWN_NAMES) :][:3]:
                    if name2 == name1:
                        continue
                    body2, ind2 = UNKNOWN_BODIES[(b1 + 1) % len(UNKNOWN_BODIES)]
                    for p2 in range(p1 + 1, len(s1) + 1):
                        s2 = s1[:p2] + [(name2, body2, ind2)] + s1[p2:]
                        _unknown_case(ctx, s2, base_text, w0, 2)


def _warn_script(base_text, text, k):
    return """base = %r
text = %r
k = %r   # acceptable difference(s)
k = k if isinstance(k, tuple) else (k,)
import logging
class H(logging.Handler):
    n = 0
    def emit(self, r):
        try:
            r.getMessage()   # a record that cannot be rendered is not a report
        except Exception:
            return
        H.n += 1
h = H(level=logging.WARNING); logging.getLogger().handlers[:] = [h]
from chartparse.chart import Chart
logging.getLogger().handlers[:] = [h]
def count(t):
    H.n = 0; Chart.from_file(io.StringIO(t)); return H.n
a, b = count(base), count(text)
print("warning records: base", a, "modified", b, "expected difference", k)
sys.exit(0 if b - a in k else 1)
""" % (base_text, text, k)


def _unknown_case(ctx, secs, base_text, w0, k):
    text = render(secs)
    names = [s[0] for s in secs]
    got = check(ctx, text, "file", "unknown sections inserted: %r" % names, sample=lambda: dict(sections=names))
    if not text.isascii():
        # invisible characters in titles / body lines: the same result through every entry point (a reader that
        # "cleans" the text it reads from a path sees other titles and braces than the one handed a file object)
        for via in VIAS[1:]:
            check(ctx, text, via, "unknown sections inserted: %r (entry point %s)" % (names, via), sample=lambda: dict(sections=names))
    if got[0] == "ok" and w0 is not None:
        w = warn_count(text)
        ctx.evaluations += 1
        ks = k if isinstance(k, tuple) else (k,)
        if w - w0 not in ks:
            ctx.violation("unknown-reported", dict(text=text, kind="unknown", base=base_text, k=list(ks)), "unknown section(s) among %r must add %s warning record(s); got %d (base %d)" % (names, " or ".join(map(str, ks)), w, w0), script=_warn_script(base_text, text, ks))


def replay(case):
    if case.get("kind") in ("unknown", "addtrack"):
        k = case.get("k", 0)
        ks = tuple(k) if isinstance(k, list) else (k,)
        a, b = warn_count(case["base"]), warn_count(case["text"])
        if a is None or b is None or b - a not in ks:
            return [dict(key="warnings", msg="warning difference %r-%r not in %r" % (b, a, ks), case=case)]
        return []
    return e1.replay_model_case(case, "routing")
