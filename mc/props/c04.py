"""C04 - strum / HOPO / tap decision table (engine E1).

For each resolution the complete table (distance class x ordered pair of the 32 lane combinations x
flags of the previous note x flags of the current note) is executed. One parsed track carries all
1024 ordered pairs for fixed (resolution, distance, flags); pairs are separated by a gap far beyond
the threshold. A failing track is shrunk to the single pair (dummy note + pair).
"""

from __future__ import annotations

from .. import envs, e1, impl
from ..chartgen import COMBOS, mk, note_lines

ID = "C04"
LEVEL = "model_checking"
ENGINE = "E1 bounded-exhaustive generation-tree explorer"
RULE = (
    "per resolution: distances {1,thr-1,thr,thr+1,thr+2,3thr+5} x 1024 ordered lane-combination pairs x 4 flag sets of the "
    "previous note x 4 of the current note (plus 5 sustain layouts of the two notes for unflagged pairs), all executed; plus all one-note tracks; distinct = distinct "
    "(resolution, distance, pair, flags) decision; non-trivial = all (each decision is a row of the table)"
)
ASSUMPTIONS = [
    "threshold = resolution/3 rounded to nearest = (resolution+1)//3 (the fraction is never one half)",
    "a forced first note may be rejected with ValueError (DESIGN.md 3.2)",
    "resolutions outside the enumerated set are not explored",
]

PROBE_SRC = '''
def probe(c):
    from chartparse.instrument import Instrument, Difficulty
    return [e.hopo_state.name for e in c[Instrument.GUITAR][Difficulty.EXPERT].note_events]
'''
probe = None
FLAGS = ((), (6,), (5,), (5, 6))


def setup():
    envs.enable(32)  # E1-M: every 32nd case again under every environment of mc/envs.py
    global probe
    impl.load()
    probe = e1.compile_probe(PROBE_SRC)


def resolutions(tier, seed):
    if tier == "quick":
        rs = list(range(1, 25)) + [96, 100, 120, 192, 480, 960]
    else:
        rs = list(range(1, 401)) + [480, 960, 1000, 1920, 9999]
    extra = [401 + (seed * 7919 + k * 104729) % 9000 for k in range(3)]
    return sorted(set(rs) | set(extra))


def distances(r):
    thr = (r + 1) // 3
    return sorted({d for d in (1, thr - 1, thr, thr + 1, thr + 2, 3 * thr + 5) if d >= 1})


def plan(tier, seed):
    rs = resolutions(tier, seed)
    shards = [(r, fp) for r in rs for fp in range(4)] + [("env", r) for r in (1, 7, 192, 480)] + [("order", r, fp) for r in (2, 7, 192) for fp in range(4)] + [("headers", k) for k in range(8)] + [("cross", k) for k in range(4)] + [("lonetap", r) for r in (1, 7, 192, 480)]
    return dict(shards=shards, bounds=dict(resolutions=(rs if len(rs) < 50 else "1..400 + %r" % [r for r in rs if r > 400])), budget_s=1500 if tier == "thorough" else 300)


def rule(a, fa, b, fb, d, thr):
    """state of note b (flags fb) following note a at distance d."""
    if 6 in fb:
        return "TAP"
    natural = len(b) <= 1 and a != b and d <= thr
    return "HOPO" if natural != (5 in fb) else "STRUM"


def far_rule(fa):
    if 6 in fa:
        return "TAP"
    return "HOPO" if 5 in fa else "STRUM"


def pair_text(r, a, fa, b, fb, d, sa=0, sb=0):
    t = 10 * r + 50
    body = note_lines(0, (0,)) + note_lines(t, a, fa, sa) + note_lines(t + d, b, fb, sb)
    return mk(res=r, tracks={"ExpertSingle": body})


# environments and tick magnitudes the rule does not mention
ENVS = (
    ("sub-microsecond ticks", lambda r: ["0 = TS 4", "0 = B 10000000000"]),
    ("slow", lambda r: ["0 = TS 4", "0 = B 1000"]),
    ("tempo change between the two notes of every pair", None),
)
BASES = (0, 2**31 - 5, 2**32 - 5, 2**62)


def _env_shard(ctx, r):
    thr = (r + 1) // 3
    gap = 10 * r + 50
    for d in distances(r):
        for ei, (ename, mksync) in enumerate(ENVS):
            for base in BASES if ei == 0 else (0,):
                ctx.node()
                body = note_lines(base, (0,))
                exp = ["STRUM"]
                t = base + gap
                changes = []
                for a in COMBOS:
                    for b in COMBOS:
                        body += note_lines(t, a, ()) + note_lines(t + d, b, ())
                        if d > 1:
                            changes.append(t + 1)
                        exp += ["STRUM", rule(a, (), b, (), d, thr)]
                        t += d + gap
                sync = mksync(r) if mksync else ["0 = TS 4", "0 = B 120000"] + ["%d = B %d" % (c, 60000 + 1000 * (k % 50)) for k, c in enumerate(changes)]
                text = mk(res=r, sync=sync, tracks={"ExpertSingle": body})
                got = e1.run_probe(probe, text)
                ctx.executions += 1
                ctx.node(1024)
                ctx.evaluations += len(exp)
                ctx.nontrivial += 1024
                ctx.hist["environment_tracks"] += 1
                if got != exp:
                    e1.report(ctx, "decision-packed", text, PROBE_SRC, [exp], got if len(str(got)) < 400 else str(got)[:400], "resolution %d distance %d in environment %r, first tick %d" % (r, d, ename, base))


def ordered_lines(t, combo, flags, order):
    """Lines of one tick with the flag lines after / before / between the lane lines (a flag line before an
    OPEN-note line stays outside the domain, DESIGN.md 3.1)."""
    lanes = note_lines(t, combo, ())
    fl = ["%d = N %d 0" % (t, f) for f in flags]
    if order == "twice":  # a flag written twice is still one flag (the note IS flagged)
        return lanes + fl + fl[::-1]
    if order == "padded":  # blank padding around a flag line (C07 promises it for every N line)
        return lanes + [("\t" if f == 5 else "") + "%d = N %d 0" % (t, f) + (" " if f == 5 else " \t") for f in flags]
    if order == "length":  # a flag line is a flag line whatever its length field says (C03: it contributes no length)
        return lanes + ["%d = N %d %d" % (t, f, 96 + f) for f in flags]
    if order == "after" or not combo or not fl:
        return lanes + fl
    if order == "before":
        return fl + lanes
    return lanes[:1] + fl + lanes[1:]


def _order_shard(ctx, r, fpi):
    fa = FLAGS[fpi]
    thr = (r + 1) // 3
    gap = 10 * r + 50
    for d in distances(r):
        for fb in FLAGS:
            if not fa and not fb:
                continue
            for order in ("before", "between") + (("twice", "length", "padded") if r == 192 else ()):
                ctx.node()
                body = note_lines(0, (0,))
                exp = ["STRUM"]
                t = gap
                for a in COMBOS:
                    for b in COMBOS:
                        body += ordered_lines(t, a, fa, order) + ordered_lines(t + d, b, fb, order)
                        exp += [far_rule(fa), rule(a, fa, b, fb, d, thr)]
                        t += d + gap
                text = mk(res=r, tracks={"ExpertSingle": body})
                got = e1.run_probe(probe, text)
                ctx.executions += 1
                ctx.node(1024)
                ctx.evaluations += len(exp)
                ctx.nontrivial += 1024
                ctx.hist["flag_order_tracks"] += 1
                if got != exp:
                    k = next((i for i in range(min(len(exp), len(got))) if got[i] != exp[i]), 0) if isinstance(got, list) and got[:1] != ["raises"] else 0
                    e1.report(ctx, "decision-packed", text, PROBE_SRC, [exp], got if len(str(got)) < 300 else str(got)[:300], "resolution %d distance %d flags %r/%r with the flag lines written %s the lane lines / twice / with a length / padded with blanks (first difference at note %d)" % (r, d, fa, fb, order, k))


HEADER_PROBE = '''
def probe(c):
    return [[i.name, d.name, [e.hopo_state.name for e in t.note_events]] for i, dd in c.instrument_tracks.items() for d, t in dd.items()]
'''


def _header_shard(ctx, k):
    """The rule is stated for "a track": the full pair table under every one of the 40 section headers."""
    from ..refmodel import TRACK_HEADERS

    hp = e1.compile_probe(HEADER_PROBE)
    r = 192
    thr = (r + 1) // 3
    gap = 10 * r + 50
    for header in list(TRACK_HEADERS)[k::8]:
        ins, dif = TRACK_HEADERS[header]
        for d in (thr, thr + 1):
            for fa, fb in (((), ()), ((), (6,)), ((), (5,)), ((), (5, 6)), ((5,), ())):
                ctx.node()
                body = note_lines(0, (0,))
                exp = ["STRUM"]
                t = gap
                for a in COMBOS:
                    for b in COMBOS:
                        body += note_lines(t, a, fa) + note_lines(t + d, b, fb)
                        exp += [far_rule(fa), rule(a, fa, b, fb, d, thr)]
                        t += d + gap
                text = mk(res=r, tracks={header: body})
                got = e1.run_probe(hp, text)
                ctx.executions += 1
                ctx.node(1024)
                ctx.evaluations += len(exp)
                ctx.nontrivial += 1024
                ctx.hist["header_tracks"] += 1
                if got != [[ins, dif, exp]]:
                    e1.report(ctx, "decision-packed", text, HEADER_PROBE, [[[ins, dif, exp]]], got if len(str(got)) < 300 else str(got)[:300], "section [%s], resolution %d distance %d flags %r/%r: states differ from the rule" % (header, r, d, fa, fb), extra_case=dict(probe="header"))


def _cross_shard(ctx, k):
    """State carried from one track / chart to the next IN ONE PROCESS (a cached threshold, a remembered previous
    note): a track at resolution r1, then a track at resolution r2 whose FIRST note is plain / tap / forced-rejected,
    with the pair table at the distances around BOTH thresholds - also as two tracks of one chart (same
    resolution, other first note)."""
    RS = (192, 480, 10, 7)
    r1 = RS[k]
    for r2 in RS:
        if r2 == r1:
            continue
        t1, t2 = (r1 + 1) // 3, (r2 + 1) // 3
        warm = mk(res=r1, tracks={"ExpertSingle": note_lines(0, (0,)) + note_lines(t1, (1,)) + note_lines(2 * t1 + 1, (2,))})
        for first_flags in ((), (6,)):
            for d in sorted({x for x in (t1, t1 + 1, t2, t2 + 1, (t1 + t2) // 2) if x >= 1}):
                for fb in ((), (5,)):
                    ctx.node()
                    gap = 10 * r2 + 50
                    body = note_lines(0, (0,), first_flags)
                    exp = ["TAP" if 6 in first_flags else "STRUM"]
                    t = gap
                    for a in COMBOS:
                        for b in COMBOS[::3]:
                            body += note_lines(t, a) + note_lines(t + d, b, fb)
                            exp += [far_rule(()), rule(a, (), b, fb, d, t2)]
                            t += d + gap
                    text = mk(res=r2, tracks={"ExpertSingle": body})
                    e1.run_probe(probe, warm)  # the earlier track, same process
                    got = e1.run_probe(probe, text)
                    ctx.executions += 2
                    ctx.evaluations += len(exp)
                    ctx.nontrivial += len(exp)
                    ctx.hist["cross_resolution_tracks"] += 1
                    if got != exp:
                        kk = next((i for i in range(min(len(exp), len(got))) if got[i] != exp[i]), 0) if isinstance(got, list) and got[:1] != ["raises"] else 0
                        e1.report(ctx, "decision-after-other-track", text, PROBE_SRC, [exp], got if len(str(got)) < 300 else str(got)[:300], "resolution %d (threshold %d) parsed right after a track at resolution %d (threshold %d); first note flags %r, distance %d, flags %r: first difference at note %d - note that the replay needs the earlier parse" % (r2, t2, r1, t1, first_flags, d, fb, kk), extra_case=dict(warm=warm))


LONE_PROBE = '''
def probe(c):
    from chartparse.instrument import Instrument, Difficulty
    return [[e.tick, e.hopo_state.name] for e in c[Instrument.GUITAR][Difficulty.EXPERT].note_events if e.tick in TAP_TICKS]
'''


def _lone_tap_shard(ctx, r):
    """A tick whose ONLY line is the tap flag line (no lane line, no open-note line). Which lanes such a note has is
    outside the statement (DESIGN.md 3.1) - but 'a note flagged tap is a tap' has no condition: IF the tick yields
    a note event, that event is a tap, at every distance from its predecessor and after every kind of predecessor."""
    thr = (r + 1) // 3
    for d in sorted({1, max(1, thr - 1), max(1, thr), thr + 1, 3 * thr + 5}):
        for L in (0, 5):
            body, taps, t = ["0 = N 0 0"], [], 10 * r + 50
            for a in COMBOS:
                for fa in FLAGS:
                    body += note_lines(t, a, fa) + ["%d = N 6 %d" % (t + d, L)]
                    taps.append(t + d)
                    t += d + 10 * r + 50
            text = mk(res=r, tracks={"ExpertSingle": body})
            src = "TAP_TICKS = set(%r)\n" % (taps,) + LONE_PROBE.strip("\n")
            got = e1.run_probe(e1.compile_probe(src), text)
            ctx.node()
            ctx.case(("lonetap", r, d, L), sample=lambda: dict(resolution=r, distance=d, flag_length=L, lone_tap_ticks=len(taps)))
            ctx.evaluations += len(taps)
            ctx.hist["lone_tap_flag_ticks"] += len(taps)
            ok = isinstance(got, list) and got[:1] != ["raises"] and all(st == "TAP" for _, st in got)
            if not ok:
                bad = got if not isinstance(got, list) or got[:1] == ["raises"] else [x for x in got if x[1] != "TAP"][:3]
                e1.report(ctx, "decision", text, src, [[[tk, "TAP"] for tk in taps], []], got if len(str(got)) < 300 else str(got)[:300], "resolution %d: a tick carrying only the tap flag line (length field %d), %d ticks after its predecessor, yields a note that is not a tap: %r" % (r, L, d, bad))


def run_shard(shard, ctx):
    if shard[0] == "cross":
        return _cross_shard(ctx, shard[1])
    if shard[0] == "headers":
        return _header_shard(ctx, shard[1])
    if shard[0] == "env":
        return _env_shard(ctx, shard[1])
    if shard[0] == "lonetap":
        return _lone_tap_shard(ctx, shard[1])
    if shard[0] == "order":
        return _order_shard(ctx, shard[1], shard[2])
    r, fpi = shard
    fa = FLAGS[fpi]
    thr = (r + 1) // 3
    gap = 10 * r + 50
    if fpi == 0:
        # one-note tracks: first-note rules
        for a in COMBOS:
            for f in FLAGS:
                text = mk(res=r, tracks={"ExpertSingle": note_lines(0, a, f)})
                exp = "TAP" if 6 in f else ("HOPO" if 5 in f else "STRUM")
                acceptable = [[exp]] + ([["raises", "ValueError"]] if 5 in f else [])
                got = e1.run_probe(probe, text)
                ctx.case(("first", r, a, f))
                ctx.evaluations += 1
                ctx.hist["first_" + (got[0] if got and got[0] != "raises" else "rejected")] += 1
                if got not in acceptable:
                    e1.report(ctx, "first-note", text, PROBE_SRC, acceptable, got, "first note of a track, resolution %d, lanes %r flags %r" % (r, a, f))
    for d in distances(r):
        ctx.node()
        for fb in FLAGS:
            ctx.node()
            if ctx.out_of_time():
                return
            # sustain layouts (previous note, current note): the rule looks at START ticks only.
            # The full set is run for unflagged notes, (0, 0) for every flag combination.
            layouts = [(0, 0)]
            if fa == () and fb == ():
                layouts += [(1, 0), (d, 0), (d + thr, 3), (2 * thr + 1, 0), (max(1, d - 1), d + 1)]
            for sa, sb in layouts:
                body = note_lines(0, (0,))
                exp = ["STRUM"]
                t = gap
                for a in COMBOS:
                    for b in COMBOS:
                        body += note_lines(t, a, fa, sa)
                        body += note_lines(t + d, b, fb, sb)
                        exp.append(far_rule(fa))
                        exp.append(rule(a, fa, b, fb, d, thr))
                        t += d + gap
                text = mk(res=r, tracks={"ExpertSingle": body})
                got = e1.run_probe(probe, text)
                ctx.executions += 1
                ctx.node(1024)
                ctx.evaluations += len(exp)
                ctx.nontrivial += 1024  # 1024 distinct decisions (r, d, a, b, fa, fb, sustains) by construction
                for s in exp:
                    ctx.hist[s] += 1
                if len(ctx.samples) < 1:
                    ctx.samples.append(dict(resolution=r, distance=d, flags_prev=list(fa), flags_cur=list(fb), sustains=[sa, sb], pairs=1024, first_pair_body=body[:6], expected_head=exp[:5]))
                if got != exp:
                    _shrink(ctx, r, d, fa, fb, thr, got, exp, text, sa, sb)


def _shrink(ctx, r, d, fa, fb, thr, got, exp, packed_text, sa=0, sb=0):
    if isinstance(got, list) and len(got) == len(exp) and got[0] != "raises":
        k = next(i for i in range(len(exp)) if got[i] != exp[i])
        p = (k - 1) // 2
        a, b = COMBOS[p // 32], COMBOS[p % 32]
        text = pair_text(r, a, fa, b, fb, d, sa, sb)
        e = ["STRUM", far_rule(fa), rule(a, fa, b, fb, d, thr)]
        g = e1.run_probe(probe, text)
        if g != e:
            e1.report(ctx, "decision", text, PROBE_SRC, [e], g, "resolution %d threshold %d distance %d: %r flags %r sustain %d then %r flags %r sustain %d" % (r, thr, d, a, fa, sa, b, fb, sb))
            return
    e1.report(ctx, "decision-packed", packed_text, PROBE_SRC, [exp], got, "resolution %d threshold %d distance %d flags %r/%r (only in the packed track of 1024 pairs)" % (r, thr, d, fa, fb))


def replay(case):
    if case.get("probe") == "header":
        return e1.replay_text_case(case, e1.compile_probe(HEADER_PROBE), "decision", HEADER_PROBE)
    return e1.replay_text_case(case, probe, "decision", PROBE_SRC)
