"""C13 - track selection restricts the parse and tracks do not interfere (engine E1)."""

from __future__ import annotations

import copy

from .. import e1, impl
from ..chartgen import RAW, section
from ..refmodel import TRACK_HEADERS

ID = "C13"
LEVEL = "model_checking"
ENGINE = "E1 bounded-exhaustive generation-tree explorer"
RULE = (
    "universe of U track headers (+1 pair absent from every file): all 2^U file subsets x all 2^(U+1) selections + None + "
    "empty + tuple form + by-path entry point; non-interference: one section's body replaced by 5 bodies (valid, empty, garbage, 2 invalid) x every "
    "selection class; oracle = the unrestricted parse of the same text; distinct = distinct (text, selection); non-trivial = "
    "file and selection both non-empty"
)
ASSUMPTIONS = [
    "the unrestricted parse of the same text is the oracle for each selected track (differential); keys are computed from "
    "the header table of the reference model",
]

SONG = ("Song", ["Resolution = 100", 'Name = "n"'])
SYNC = ("SyncTrack", ["0 = TS 4", "0 = B 120000", "50 = B 60000", "120 = TS 3"])
EVENTS = ("Events", ['0 = E "section a"', '60 = E "lyric b"'])
UNIVERSE = ("ExpertSingle", "HardSingle", "ExpertDoubleBass", "EasyDrums", "HardDrums", "ExpertDrums", "MediumGHLCoop", "EasyKeyboard")
ABSENT = ("KEYS", "MEDIUM")

# invalid bodies whose rejection must not depend on what ELSE is in the file: the second steps back across the
# tempo change at tick 50 to ticks that other sections / tracks look up themselves (0: TS and section; 1: a note)
INVALID = (["0 = N 0 0", "0 = N 5 0"], ["60 = E a", "0 = E b"], ["70 = N 1 0", "1 = N 2 0"], ["60 = S 2 1", "45 = S 2 1"])

REPLACEMENTS = (
    ("valid", ["1 = N 4 2", "70 = N 3 0", "70 = N 5 0"], True),
    ("empty", [], True),
    ("garbage", ["garbage", "1 = N 9 0", ""], True),
    ("brace look-alikes", ["1 = N 4 2", "}", "2 = N 1 0", RAW + "} ", "{", "[EasyKeyboard]", RAW + "{ ", "3 = N 2 0", RAW + "\t}", "9 = N 0 0"], True),
    ("header look-alikes", ["1 = N 4 2", RAW + "[ExpertSingle]", "2 = N 1 0", RAW + "[HardSingle]", RAW + "[EasyDrums]", RAW + "[Song]", RAW + "[ExpertDoubleBass]", "3 = N 2 0", RAW + "[x] y [z]"], True),
    # ONE un-indented line that is exactly the header of another section (the last look-alike in a body decides where
    # a renaming splitter files it)
    ("header look-alike [ExpertSingle]", ["1 = N 4 2", RAW + "[ExpertSingle]", "2 = N 1 0"], True),
    ("header look-alike [HardDrums]", ["1 = N 4 2", "2 = N 1 0", RAW + "[HardDrums]"], True),
    ("header look-alike [EasyDrums]", [RAW + "[EasyDrums]", "1 = N 4 2"], True),
    ("header look-alike [Song]", ["1 = N 4 2", RAW + "[Song]", "Resolution = 7"], True),
    ("header look-alike [SyncTrack]", ["1 = N 4 2", RAW + "[SyncTrack]", "0 = TS 4", "0 = B 60000"], True),
    ("forced-first", ["0 = N 0 0", "0 = N 5 0"], False),
    ("unsorted", ["60 = E a", "10 = E b"], False),
)


def setup():
    impl.load()


def body(j):
    return ["%d = N %d %d" % (j, j % 5, j), "%d = N %d 0" % (40 + 13 * j, (j + 1) % 5), "%d = S 2 %d" % (j, 30 + j), "%d = E e%d" % (45 + j, j)]


def text_for(fm, U, bodies=None, unknown=False):
    secs = [SONG, SYNC, EVENTS]
    for j in range(U):
        if fm >> j & 1:
            secs.insert(1 + j % 3, (UNIVERSE[j], (bodies or {}).get(j, body(j))))
    if unknown:
        # unrecognised sections in front of, between and behind the sections of the file (reported and ignored, C06):
        # they are no tracks, so they change neither what a selection selects nor what no selection yields
        out = [("Foo", ["0 = N 0 0"])]
        for k, sec in enumerate(secs):
            out.append(sec)
            out.append((("PART VOCALS", "ExpertSingle ", "Bar")[k % 3], [] if k % 2 else ["1 = N 1 1", "x"]))
        secs = out
    return "".join(section(n, b) for n, b in secs)


def plan(tier, seed):
    U = 6 if tier == "quick" else 8
    shards = [("sel", fm, U) for fm in range(1 << U)] + [("sel", fm, U, "unknown sections interleaved") for fm in range(1 << U) if fm % 3 == 1 or fm == (1 << U) - 1]
    shards += [("nonint", j, U) for j in range(U)]
    shards += [("longsel", k) for k in range(4)]
    return dict(shards=shards, bounds=dict(universe=list(UNIVERSE[:U]), absent_pair=list(ABSENT)), budget_s=600)


def restrict(full, keys):
    o = copy.deepcopy(full)
    o["tracks"] = {k: v for k, v in o["tracks"].items() if k in keys}
    o["instruments"] = sorted({k.split("/")[0] for k in o["tracks"]})
    return o


def run_shard(shard, ctx):
    kind = shard[0]
    if kind == "sel":
        _, fm, U = shard[:3]
        text = text_for(fm, U, unknown=len(shard) > 3)
        pairs = [list(TRACK_HEADERS[h]) for h in UNIVERSE[:U]] + [list(ABSENT)]
        present = {"%s/%s" % tuple(pairs[j]) for j in range(U) if fm >> j & 1}
        full = impl.model_outcome(text, "file", None, (), "full")
        ctx.node()
        ctx.case((text, None), nontrivial=False)
        ctx.evaluations += 1
        if full[0] != "ok" or set(full[1]["tracks"]) != present:
            ctx.violation("selection", dict(text=text, want=None, shape="full", present=sorted(present), acceptable=[["ok", "<tracks %s>" % sorted(present)]]), "no selection must yield all tracks of the file %r, got %r" % (sorted(present), full[1] if full[0] == "err" else sorted(full[1]["tracks"])))
            return
        for sm in range(1 << (U + 1)):
            if ctx.out_of_time():
                return
            sel = [pairs[j] for j in range(U + 1) if sm >> j & 1]
            keys = {"%s/%s" % tuple(p) for p in sel} & present
            exp = ["ok", restrict(full[1], keys)]
            vias = ("file",) + (("file-tuple",) if sm % 5 == 0 else ()) + (("path", "path-bom", "path-str") if sm % 7 == 3 else ()) + (("file-reuse",) if sm % 4 == 1 else ())
            if sel and sm % 3 == 1:  # the same pairs named twice / in reverse order select the same tracks
                e1.check_outcome(ctx, "selection", text, [exp], "file", sel + sel[::-1], "file tracks %r, selection with duplicates %r" % (sorted(present), sel + sel[::-1]))
                ctx.case((text, "dup", tuple(map(tuple, sel))))
                ctx.evaluations += 1
            for via in vias:
                ctx.case((text, tuple(map(tuple, sel)), via), nontrivial=bool(fm and sm), sample=lambda: dict(file_tracks=sorted(present), selection=sel))
                ctx.evaluations += 1
                ctx.hist["selected_%d" % len(keys)] += 1
                e1.check_outcome(ctx, "selection", text, [exp], via, sel, "file tracks %r, selection %r" % (sorted(present), sel))
    elif kind == "longsel":
        # LONG selections (scale layer): a selection is a collection of pairs; its length, repeated entries and
        # entries for tracks the file does not have never change which tracks are selected
        U = 6
        allpairs = [list(v) for v in TRACK_HEADERS.values()]
        upairs = [list(TRACK_HEADERS[h]) for h in UNIVERSE[:U]]
        for fm in ((1 << U) - 1, 0b101101, 0b000001, 0b010010)[shard[1] :: 4]:
            present = {"%s/%s" % tuple(upairs[j]) for j in range(U) if fm >> j & 1}
            for invalid in (False, True):
                # an INVALID section that is never selected sits in the file as well
                text = text_for(fm, U) + (section("ExpertKeyboard", INVALID[0]) if invalid else "")
                if invalid:
                    full = impl.model_outcome(text_for(fm, U), "file", None, (), "full")
                else:
                    full = impl.model_outcome(text, "file", None, (), "full")
                notkeys = [p for p in allpairs if p != ["KEYS", "EXPERT"]]
                sels = []
                for sub in ([upairs[0]], upairs[:2], [upairs[0], list(ABSENT)], [list(ABSENT)], upairs[1:4]):
                    for L in (39, 40, 41, 64, 200, 1000):
                        sels.append((sub * L)[:L])
                sels.append(notkeys)  # 39 distinct pairs
                sels.append(notkeys + notkeys[:1])  # 39 distinct + one repeat = 40 entries
                sels.append(notkeys + notkeys)
                if not invalid:
                    sels.append(allpairs)
                    sels.append(allpairs + allpairs[:3])
                for sel in sels:
                    ctx.node()
                    keys = {"%s/%s" % tuple(p) for p in sel} & present
                    exp = ["ok", restrict(full[1], keys)]
                    ctx.case((text, "longsel", len(sel), tuple(map(tuple, sel[:3]))), sample=lambda: dict(file_tracks=sorted(present), selection_length=len(sel), distinct=len({tuple(p) for p in sel})))
                    ctx.evaluations += 1
                    ctx.hist["selection_len_%d" % len(sel)] += 1
                    for via in ("file", "file-tuple", "file-reuse"):
                        e1.check_outcome(ctx, "selection", text, [exp], via, sel, "file tracks %r%s, selection of %d entries (%d distinct)" % (sorted(present), " + an invalid [ExpertKeyboard]" if invalid else "", len(sel), len({tuple(p) for p in sel})))
    else:
        _, j, U = shard
        fm = (1 << U) - 1
        pairs = [list(TRACK_HEADERS[h]) for h in UNIVERSE[:U]]
        base_text = text_for(fm, U)
        me = "%s/%s" % tuple(pairs[j])
        others = [p for k, p in enumerate(pairs) if k != j]
        for rname, rbody, valid in REPLACEMENTS:
            ctx.node()
            text = text_for(fm, U, {j: rbody})
            # (1) the replaced section is not selected: result identical to the original file's
            for sel in (others, others[:1], []):
                exp = impl.model_outcome(base_text, "file", sel, (), "full")
                ctx.case((text, tuple(map(tuple, sel)), rname), sample=lambda: dict(replaced=UNIVERSE[j], by=rname, selection=sel))
                ctx.evaluations += 1
                e1.check_outcome(ctx, "non-interference", text, [exp], "file", sel, "section [%s] replaced by %s body but not selected (selection %r)" % (UNIVERSE[j], rname, sel))
            # (3) an invalid section that IS parsed: its outcome must be the same whatever else is in the file,
            # in whatever order, under whatever selection that includes it
            if not valid and rname == "forced-first":
                for ibody in INVALID:
                    alone = "".join(section(n, b) for n, b in [SONG, SYNC, EVENTS, (UNIVERSE[j], ibody)])
                    ref = impl.model_outcome(alone, "file", [pairs[j]], (), "full")
                    with_others = text_for(fm, U, {j: ibody})
                    moved = "".join(section(n, b) for n, b in [SONG, SYNC, (UNIVERSE[j], ibody)] + [(UNIVERSE[k], body(k)) for k in range(U) if k != j] + [EVENTS])
                    for t2, where in ((with_others, "among the other sections"), (moved, "before the other track sections")):
                        for sel in (None, pairs, [pairs[j]], [pairs[j]] + others[:2]):
                            got = impl.model_outcome(t2, "file", sel, (), "full")
                            ctx.case((t2, "invalid", None if sel is None else tuple(map(tuple, sel))))
                            ctx.evaluations += 1
                            same = got[0] == ref[0] and (got[0] == "err" and got[1] == ref[1] or got[0] == "ok" and got[1]["tracks"].get(me) == ref[1]["tracks"].get(me))
                            if not same:
                                ctx.violation("non-interference", dict(text=t2, want=sel, kind="invalid", alone=alone, me=me, mypair=pairs[j]), "section [%s] with body %r is %s when it is the only track section, but %s %s under selection %r: another section decides its outcome" % (UNIVERSE[j], ibody, "rejected (%s)" % ref[1] if ref[0] == "err" else "parsed", "rejected (%s)" % got[1] if got[0] == "err" else "parsed", where, sel), expected=ref[:2] if ref[0] == "err" else "parsed", observed=got[:2] if got[0] == "err" else "parsed")
            # (2) selected / unrestricted with a valid replacement: every other track identical
            if valid:
                for sel in (None, pairs, [pairs[j]] + others[:1]):
                    exp = impl.model_outcome(base_text, "file", sel, (), "full")
                    got = impl.model_outcome(text, "file", sel, (), "full")
                    ctx.case((text, "sel2", None if sel is None else tuple(map(tuple, sel)), rname))
                    ctx.evaluations += 1
                    ok = got[0] == "ok" and exp[0] == "ok" and {k: v for k, v in got[1]["tracks"].items() if k != me} == {k: v for k, v in exp[1]["tracks"].items() if k != me} and all(got[1][k] == exp[1][k] for k in ("metadata", "sync", "globals"))
                    if not ok:
                        acc = copy.deepcopy(exp)
                        ctx.violation("non-interference", dict(text=text, want=sel, kind="others", me=me, base=base_text), "replacing the body of [%s] by a %s body changed another track or the shared sections (selection %r)" % (UNIVERSE[j], rname, sel), expected=acc, observed=got)


def replay(case):
    if case.get("kind") == "invalid":
        ref = impl.model_outcome(case["alone"], "file", [case["mypair"]], (), "full")
        got = impl.model_outcome(case["text"], "file", case["want"], (), "full")
        me = case["me"]
        same = got[0] == ref[0] and (got[0] == "err" and got[1] == ref[1] or got[0] == "ok" and got[1]["tracks"].get(me) == ref[1]["tracks"].get(me))
        return [] if same else [dict(key="non-interference", msg="still differs", case=case)]
    if case.get("kind") == "others":
        exp = impl.model_outcome(case["base"], "file", case["want"], (), "full")
        got = impl.model_outcome(case["text"], "file", case["want"], (), "full")
        me = case["me"]
        ok = got[0] == "ok" and exp[0] == "ok" and {k: v for k, v in got[1]["tracks"].items() if k != me} == {k: v for k, v in exp[1]["tracks"].items() if k != me} and all(got[1][k] == exp[1][k] for k in ("metadata", "sync", "globals"))
        return [] if ok else [dict(key="non-interference", msg="still differs", case=case)]
    if isinstance(case["acceptable"][0][1], str):
        full = impl.model_outcome(case["text"], "file", None, (), "full")
        good = full[0] == "ok" and ("present" not in case or sorted(full[1]["tracks"]) == case["present"])
        return [] if good else [dict(key="selection", msg="the unrestricted parse fails or does not yield exactly the tracks of the file", case=case)]
    return e1.replay_model_case(case, "selection")
