"""C02 - one note event per tick; lanes are exactly the lanes written (engine E1).

State of the generation tree: a prefix of ticks, each with (lane combination, flags). A transition
appends one tick. Every leaf is rendered under every gap vector, lane-line order and interleaving
of foreign S/E lines, parsed by the real Chart.from_file and compared with the model
(distinct ticks in order, lanes = union of the lane lines, open -> no lanes).
"""

from __future__ import annotations

import itertools

from .. import envs, e1, impl
from ..chartgen import COMBOS, lanes_vector, mk, note_lines

ID = "C02"
LEVEL = "model_checking"
ENGINE = "E1 bounded-exhaustive generation-tree explorer"
RULE = (
    "every sequence of K ticks over 32 lane combinations x flags x gap vectors x lane-line orders x S/E interleavings "
    "(bounds in coverage.bounds) is parsed by Chart.from_file; distinct = distinct section text; non-trivial = the "
    "section has >= 2 note lines"
)
ASSUMPTIONS = [
    "instrument sections follow Moonscraper line order (DESIGN.md 3.1)",
    "sections longer than the stated K and gaps outside the stated set are not explored (small-scope hypothesis)",
]

HEADER_PROBE = '''
def probe(c):
    return [[i.name, d.name, [[e.tick, list(e.note.value)] for e in t.note_events]] for i, dd in c.instrument_tracks.items() for d, t in dd.items()]
'''
PROBE_SRC = '''
def probe(c):
    from chartparse.instrument import Instrument, Difficulty
    return [[e.tick, list(e.note.value)] for e in c[Instrument.GUITAR][Difficulty.EXPERT].note_events]
'''
probe = None

FLAGS = ((), (6,), (5,), (5, 6))
ORDERS = ("asc", "desc", "rot")
INTER = ("none", "before", "between", "after", "inside")
SUB12 = tuple(COMBOS[m] for m in (0, 1, 2, 16, 3, 24, 5, 7, 28, 15, 30, 31))  # every lane count 0..5


def setup():
    envs.enable(64)  # E1-M: every 64th case again under every environment of mc/envs.py
    global probe
    impl.load()
    probe = e1.compile_probe(PROBE_SRC)


def render(ticks, groups, inter):
    """groups: list of lists of N lines (one list per tick) -> body with foreign lines interleaved."""
    s = lambda t: "%d = S 2 1" % t  # noqa: E731
    e = lambda t: "%d = E solo" % t  # noqa: E731
    body = []
    if inter == "none":
        for g in groups:
            body += g
    elif inter == "before":
        body = [s(ticks[0]), e(ticks[0])]
        for g in groups:
            body += g
    elif inter == "after":
        for g in groups:
            body += g
        body += [s(ticks[-1]), e(ticks[-1])]
    elif inter == "between":
        k = 0
        for t, g in zip(ticks, groups):
            for ln in g:
                body.append(ln)
                body.append(s(t) if k % 2 == 0 else e(t))
                k += 1
    elif inter == "inside":
        for t, g in zip(ticks, groups):
            body += g[:1] + [s(t), e(t)] + g[1:]
    elif inter == "noise":  # unparsable lines (C14: reported and skipped) between and inside the ticks
        for k, g in enumerate(groups):
            body += g[:1] + [("", "garbage", "   ", "%d = N 8 0" % ticks[k])[k % 4]] + g[1:]
    return body


def plan(tier, seed):
    shards = []
    if tier == "quick":
        for a in range(32):
            shards.append(("K2", a))
        for a in range(32):
            shards.append(("K3g1", a))
        bounds = dict(K2="all 32+32^2 sequences x gaps{1,2,100} x flags x 3 orders x 5 interleavings", K3="32^3, gap 1, no flags")
    else:
        for a in range(32):
            shards.append(("K2", a))
        for a in range(32):
            for b in range(0, 32, 8):
                shards.append(("K3full", a, b))
        for a in range(12):
            for b in range(12):
                shards.append(("K4", a, b))
        bounds = dict(
            K2="as quick",
            K3="32^3 x gaps{1,2,100}^2 x interleavings{none,between,inside} + flags on the last tick",
            K4="12^4 over a 12-combination sub-alphabet (every lane count), gaps{1,2}, orders asc/desc",
        )
    shards += [("long", g, inter) for g in (1, 2, 100) for inter in ("none", "between", "inside", "noise")]
    shards += [("big", lo) for lo in range(0, 28, 2)]
    shards += [("headers", k) for k in range(4)]
    bounds["headers"] = "all 40 section headers (instrument x difficulty): 32 combinations x 4 flag sets x 3 line orders x 3 interleavings each"
    bounds["big"] = "one section of 30 000 ticks in a chart of 1.2*10^6 characters, padding sweep 0..27"
    bounds["long"] = "sections of 128, 256, 640 (and once 5120) ticks walking through all 32 combinations x 4 flag sets, under 4 tempo / resolution environments and tick offsets up to 2^63"
    return dict(shards=shards, bounds=bounds, budget_s=900 if tier == "thorough" else 240)


# environments the statement does not mention, so the result must not depend on them
ENVS = (
    ("default", dict()),
    ("sub-microsecond ticks", dict(res=960, sync=["0 = TS 4", "0 = B 1000000000", "300 = B 2000000000"])),
    ("slow, resolution 1", dict(res=1, sync=["0 = TS 4", "0 = B 1000"])),
    ("many tempo changes", dict(res=192, sync=["0 = TS 4"] + ["%d = B %d" % (7 * i, 60000 + 977 * i) for i in range(40)])),
)


def check(ctx, ticks, combos, flags, order, inter, env=0, sustain=0):
    if order in ("x2", "x3"):  # every line of the tick written two / three times: still ONE event with the same lanes
        groups = [note_lines(t, c, f, sustain, "asc") * int(order[1]) for t, c, f in zip(ticks, combos, flags)]
    else:
        groups = [note_lines(t, c, f, sustain, order) for t, c, f in zip(ticks, combos, flags)]
    body = render(ticks, groups, inter)
    text = mk(tracks={"ExpertSingle": body}, **ENVS[env][1])
    expected = [[t, lanes_vector(c)] for t, c in zip(ticks, combos)]
    got = e1.run_probe(probe, text)
    ctx.case(text, nontrivial=sum(len(g) for g in groups) >= 2, sample=lambda: dict(body=body, expected=expected))
    ctx.evaluations += 1
    ctx.hist["lines_%d" % min(9, sum(len(g) for g in groups))] += 1
    if got != expected:
        e1.report(
            ctx,
            "note-events",
            text,
            PROBE_SRC,
            [expected],
            got,
            "note events (tick, lanes) differ from the lines written: body=%r" % (body,),
        )


def run_shard(shard, ctx):
    kind = shard[0]
    if kind == "big":
        # a section of 30 000 ticks in a chart of more than 2^20 characters; the padding (length of the song name)
        # moves every line break across every block boundary of a chunked reader
        combos = [COMBOS[(i * 7) % 32] for i in range(30000)]
        ticks = list(range(30000))
        body = []
        for t, c in zip(ticks, combos):
            body += note_lines(t, c)
        expected = [[t, lanes_vector(c)] for t, c in zip(ticks, combos)]
        for pad in range(shard[1], shard[1] + 2):
            text = mk(song_extra=['Name = "%s"' % ("x" * (pad + 1))], tracks={"ExpertSingle": body})
            got = e1.run_probe(probe, text)
            ctx.case(("big", pad), sample=dict(characters=len(text), ticks=30000, pad=pad))
            ctx.evaluations += 1
            if got != expected:
                k = next((i for i in range(min(len(got), len(expected))) if got[i] != expected[i]), None) if isinstance(got, list) and got[:1] != ["raises"] else None
                e1.report(ctx, "note-events-big", text, PROBE_SRC, [expected], got if not isinstance(got, list) or len(got) < 5 else ["...", got[max(0, (k or 0) - 1) : (k or 0) + 2]], "chart of %d characters (padding %d): note events differ from the lines written (first difference at event %r, %d events instead of 30000)" % (len(text), pad, k, len(got) if isinstance(got, list) else -1))
        return
    if kind == "headers":
        # the statement is about "an instrument section": every one of the 40 headers, not only [ExpertSingle]
        from ..refmodel import TRACK_HEADERS

        hp = e1.compile_probe(HEADER_PROBE)
        for header in list(TRACK_HEADERS)[shard[1] :: 4]:
            ins, dif = TRACK_HEADERS[header]
            for order in ORDERS:
                for inter in ("none", "between", "inside", "noise"):
                    ctx.node()
                    combos, flags = [], []
                    for f in FLAGS:
                        for m in range(32):
                            combos.append(COMBOS[m])
                            flags.append(f if combos[1:] else ())
                    ticks = [3 * i for i in range(len(combos))]
                    groups = [note_lines(t, c, f, 0, order) for t, c, f in zip(ticks, combos, flags)]
                    body = render(ticks, groups, inter)
                    # (the section stands between unrecognised sections and another, empty, track: what surrounds an
                    # instrument section is none of its business)
                    around = {"none": [(header, body)], "between": [("Foo", ["x"]), (header, body), ("PART VOCALS", [])], "inside": [(header, body), ("Foo", [])], "noise": [("Foo", []), ("Bar", ["0 = N 0 0"]), (header, body)]}[inter]
                    text = mk(tracks=around)
                    expected = [[ins, dif, [[t, lanes_vector(c)] for t, c in zip(ticks, combos)]]]
                    got = e1.run_probe(hp, text)
                    ctx.case(text, sample=lambda: dict(header=header, ticks=len(ticks)))
                    ctx.evaluations += 1
                    ctx.hist["header_sections"] += 1
                    if got != expected:
                        e1.report(ctx, "note-events", text, HEADER_PROBE, [expected], got if len(str(got)) < 600 else str(got)[:600], "section [%s], %d ticks walking through all combinations and flags (line order %s, S/E lines %s): note events differ from the lines written" % (header, len(ticks), order, inter), extra_case=dict(probe="header"))
        return
    if kind == "long":
        _, gap, inter = shard
        for reps, order in ((1, "asc"), (2, "desc"), (5, "rot")) + (((40, "asc"),) if (gap, inter) == (1, "none") else ()) + (((1, "x2"), (1, "x3")) if inter in ("none", "between") else ()):
            combos, flags = [], []
            for rep in range(reps):
                for fi, f in enumerate(FLAGS):
                    for m in range(32):
                        combos.append(COMBOS[(m + rep) % 32])
                        flags.append(f if (combos and len(combos) > 1) else ())
            flags[0] = ()
            for env in range(len(ENVS)):
                for base in (0,) if env != 1 else (0, 2**31 - 7, 2**32 - 7, 2**63 - 10**6):
                    if base and reps > 1:
                        continue
                    ticks = [base + gap * i for i in range(len(combos))]
                    check(ctx, ticks, combos, flags, order, inter, env, sustain=(0 if env == 0 else 3))
        return
    if kind == "K2":
        a = COMBOS[shard[1]]
        ctx.node()
        for fa in FLAGS[:2]:
            for order in ORDERS:
                for inter in INTER:
                    check(ctx, [0], [a], [fa], order, inter)
        for b in COMBOS:
            ctx.node()
            if ctx.out_of_time():
                return
            # sustains that make the two events END on one tick (a held note re-struck at its release point, or
            # inside an extended sustain with a common release): still two ticks, two events
            for gap in (1, 2, 100):
                for s1, s2 in ((gap, 0), (gap + 2, 2), (gap + 5, 5)):
                    body = note_lines(0, a, (), s1) + note_lines(gap, b, (), s2)
                    text = mk(tracks={"ExpertSingle": body})
                    expected = [[0, lanes_vector(a)], [gap, lanes_vector(b)]]
                    got = e1.run_probe(probe, text)
                    ctx.case(text, sample=lambda: dict(body=body, expected=expected))
                    ctx.evaluations += 1
                    ctx.hist["common_release"] += 1
                    if got != expected:
                        e1.report(ctx, "note-events", text, PROBE_SRC, [expected], got, "note events (tick, lanes) differ from the lines written (both notes released on one tick): body=%r" % (body,))
            for gap in (1, 2, 100):
                for fa in FLAGS[:2]:
                    for fb in FLAGS:
                        for order in ORDERS:
                            for inter in INTER:
                                check(ctx, [0, gap], [a, b], [fa, fb], order, inter)
    elif kind == "K3g1":
        a = COMBOS[shard[1]]
        ctx.node()
        for b in COMBOS:
            ctx.node()
            if ctx.out_of_time():
                return
            for c in COMBOS:
                ctx.node()
                check(ctx, [0, 1, 2], [a, b, c], [(), (), ()], "asc", "none")
    elif kind == "K3full":
        a = COMBOS[shard[1]]
        ctx.node()
        for b in COMBOS[shard[2] : shard[2] + 8]:
            ctx.node()
            for c in COMBOS:
                ctx.node()
                if ctx.out_of_time():
                    return
                for g1, g2 in itertools.product((1, 2, 100), repeat=2):
                    for inter in ("none", "between", "inside"):
                        check(ctx, [0, g1, g1 + g2], [a, b, c], [(), (), ()], "asc", inter)
                    check(ctx, [0, g1, g1 + g2], [a, b, c], [(), (6,), (5, 6)], "desc", "none")
    elif kind == "K4":
        a, b = SUB12[shard[1]], SUB12[shard[2]]
        ctx.node(2)
        for c in SUB12:
            ctx.node()
            for d in SUB12:
                ctx.node()
                if ctx.out_of_time():
                    return
                for gaps in itertools.product((1, 2), repeat=3):
                    ticks = [0, gaps[0], gaps[0] + gaps[1], sum(gaps)]
                    for order in ("asc", "desc"):
                        check(ctx, ticks, [a, b, c, d], [(), (), (), ()], order, "none")


def replay(case):
    if case.get("probe") == "header":
        return e1.replay_text_case(case, e1.compile_probe(HEADER_PROBE), "note-events", HEADER_PROBE)
    return e1.replay_text_case(case, probe, "note-events", PROBE_SRC)
