"""C15 - untrustworthy tempo data is rejected loudly (engine E1, fault enumeration)."""

from __future__ import annotations

from .. import envs, e1, impl, refmodel
from ..chartgen import mk

ID = "C15"
LEVEL = "fault_enumeration"
ENGINE = "E1 bounded-exhaustive generation-tree explorer (every single fault at every position)"
RULE = (
    "well-formed bases (tempo maps of 1..4 events, and long maps of 9..65 events, x event placements before/at/after each tempo tick for 8 event kinds) x every "
    "single corruption at every position (drop/shift tick-0 tempo, drop/shift tick-0 signature, duplicate tempo tick k, swap "
    "tempo lines k/k+1, tempo k := 0, Resolution 0/00) ; then every query tick -3..last+3; distinct = distinct chart text; "
    "non-trivial = the text carries a corruption"
)
ASSUMPTIONS = [
    "rejected resolution is the literal 0 / 00 (DESIGN.md 3.10)",
    "for a zero tempo the model decides which events it governs; the chart must be rejected iff one exists",
]

TEMPO = ((0, 120000), (10, 90000), (20, 150000), (30, 60000), (40, 200000), (50, 1000))
TEMPO_DENSE = ((0, 120000), (1, 90000), (2, 150000), (3, 60000), (4, 200000))
# markers that merely restate the tempo in force (Moonscraper writes one next to every anchor)
# environments in which a whole tick (or ten) lasts less than half a microsecond, so that times near tick 0 ROUND to 0:
# the checks of the statement are about TICKS (codes 201.. : very fast tempo at resolution 960; 301.. : resolution 10^9)
TEMPO_FAST = ((0, 700000000), (10, 900000000), (20, 1000000000), (30, 800000000))
TEMPO_RESTATE = ((0, 120000), (10, 120000), (20, 90000), (30, 90000), (40, 90000), (50, 150000))
KINDS = ("TS", "text", "section", "lyric", "S", "E", "N", "Nend", "Nend-chord0", "Nend-chord1")
LONG = (9, 10, 16, 17, 18, 33, 40, 65)  # tempo-map lengths around plausible fast-path thresholds

PROBE_SRC = '''
def probe(c):
    be = c.sync_track.bpm_events
    last = max(e.tick for e in be)
    out = []
    for t in range(-3, last + 4):
        try:
            be.timestamp_at_tick_no_optimize_return(t)
            out.append([t, "time"])
        except ValueError:
            out.append([t, "ValueError"])
        except Exception as e:
            out.append([t, "raises " + type(e).__name__])
    return out
'''
NEG_SRC = '''
def probe(c):
    be = c.sync_track.bpm_events
    out = []
    for f in (be.timestamp_at_tick_no_optimize_return, lambda t: be.timestamp_at_tick(t)[0]):
        try:
            out.append(str(f(%d)))
        except ValueError:
            out.append("ValueError")
        except Exception as e:
            out.append("raises " + type(e).__name__)
    return out[0] if out[0] == out[1] else out
'''
NPS_SRC = '''
ARGS = %r   # tick bounds of the typed call forms (start) / (start, end); every one must raise ValueError
def probe(c):
    from chartparse.instrument import Instrument, Difficulty
    out = []
    for a in ARGS:
        try:
            out.append([a, "returned %%r" %% (c.notes_per_second(Instrument.GUITAR, Difficulty.EXPERT, *a),)])
        except ValueError:
            out.append([a, "ValueError"])
        except Exception as e:
            out.append([a, "raises " + type(e).__name__])
    return out
'''
probe = None


def setup():
    envs.enable(64)  # E1-M: every 64th case again under every environment of mc/envs.py
    global probe
    impl.load()
    probe = e1.compile_probe(PROBE_SRC)


def plan(tier, seed):
    kmax = 4 if tier == "quick" else 6
    shards = [("corrupt", k) for k in range(1, kmax + 1)] + [("zero", k, j) for k in range(1, kmax + 1) for j in range(k)] + [("queries",)]
    if tier == "thorough":
        shards += [("corrupt", -k) for k in range(2, 6)] + [("zero", -k, j) for k in range(2, 6) for j in range(k)]
    shards += [("long", n) for n in LONG]
    shards.append(("rates",))
    shards += [("optimised", ("-O",)), ("optimised", ("-OO",))]
    shards += [("corrupt", 100 + k) for k in range(2, 7)] + [("zero", 100 + k, j) for k in range(2, 7) for j in range(k)]
    shards += [("corrupt", 200 + k) for k in range(1, 5)] + [("zero", 200 + k, j) for k in (2, 4) for j in range(k)]
    shards += [("corrupt", 300 + k) for k in range(1, 4)] + [("zero", 303, j) for j in range(3)]
    return dict(shards=shards, bounds=dict(tempo_events="1..%d%s" % (kmax, "" if tier == "quick" else " (gaps 10) and 2..5 (gaps 1)"), event_kinds=list(KINDS), placements="tick-1, tick, tick+1 of each tempo event"), budget_s=300)


def event_lines(kind, t):
    """(sync lines, events lines, track lines) placing one event of `kind` at tick t."""
    if kind == "TS":
        return ["%d = TS 3" % t], [], []
    if kind == "text":
        return [], ['%d = E "x"' % t], []
    if kind == "section":
        return [], ['%d = E "section s"' % t], []
    if kind == "lyric":
        return [], ['%d = E "lyric l"' % t], []
    if kind == "S":
        return [], [], ["%d = S 2 1" % t]
    if kind == "E":
        return [], [], ["%d = E solo" % t]
    if kind == "N":
        return [], [], ["%d = N 0 0" % t]
    t0 = max(0, t - 4)
    if kind == "Nend-chord0":  # mixed chord: the first written lane is unsustained, a higher lane's END lands on t
        return [], [], ["%d = N 0 0" % t0, "%d = N 2 %d" % (t0, t - t0)]
    if kind == "Nend-chord1":  # mixed chord: short first lane, the longest lane written last, a flag line with a length
        return [], [], ["%d = N 1 %d" % (t0, min(1, t - t0)), "%d = N 3 %d" % (t0, max(0, t - t0 - 1)), "%d = N 4 %d" % (t0, t - t0), "%d = N 6 0" % t0]
    return [], [], ["%d = N 0 %d" % (t0, t - t0)]  # sustain END lands on t


def chart(tempo, ts=((0, 4),), res="192", extra=((), (), ()), song_extra=()):
    sync = ["%d = TS %d" % x for x in ts if x[0] == 0] + ["%d = B %d" % x for x in tempo] + ["%d = TS %d" % x for x in ts if x[0] != 0] + list(extra[0])
    return mk(res=res, sync=sync, events=list(extra[1]), tracks={"ExpertSingle": list(extra[2])}, song_extra=song_extra)


def base_of(k):
    """shard code -> (tempo map, resolution)"""
    if k > 300:
        return list(TEMPO[: k - 300]), "1000000000"
    if k > 200:
        return list(TEMPO_FAST[: k - 200]), "960"
    if k > 100:
        return list(TEMPO_RESTATE[: k - 100]), "192"
    return (list(TEMPO[:k]) if k > 0 else list(TEMPO_DENSE[:-k])), "192"


def expect(ctx, text, what, corrupted=True):
    res = refmodel.model(text)
    got = impl.model_outcome(text, "file", None, (), "model")
    ctx.case(text, nontrivial=corrupted, sample=lambda: dict(corruption=what, text_head=text.splitlines()[:12]))
    ctx.evaluations += 1
    want_err = res.kind == "err"
    ctx.hist["must_reject" if want_err else "must_accept"] += 1
    if want_err:
        if got != ["err", "ValueError"]:
            ctx.violation("not-rejected", dict(text=text, acceptable=[["err", "ValueError"]], drop=["*"]), "%s: must be rejected with ValueError, got %s" % (what, "a chart" if got[0] == "ok" else got[1]), expected=["err", "ValueError"], observed=got[:2] if got[0] == "err" else "chart returned", script=e1.script(text, "def probe(c):\n    return 'chart returned'", [["raises", "ValueError"]]))
        return None
    if got[0] != "ok":
        # spurious rejection of trustworthy data is not what this property is about; C01/C08 own acceptance
        ctx.hist["undecided(rejected although model accepts)"] += 1
        return None
    return got


def run_shard(shard, ctx):
    if shard[0] == "optimised":
        from .. import core
        import sys

        core.run_in_other_interpreter(ctx, sys.modules[__name__], [("queries",), ("corrupt", 2), ("zero", 2, 1), ("zero", 3, 2), ("rates",)], shard[1], "query sweeps, every corruption of the 2-event maps, zero tempi, rate queries")
        return
    kind = shard[0]
    if kind == "corrupt":
        b, RES = base_of(shard[1])
        k = len(b)
        ctx.node()
        placements = [((), (), ())]
        for kd in KINDS:
            for t in sorted({x + d for x, _ in b for d in (-1, 0, 1) if x + d >= 0}):
                placements.append(event_lines(kd, t))
        for extra in placements:
            ctx.node()
            if ctx.out_of_time():
                return
            expect(ctx, chart(b, extra=extra, res=RES), "none (well-formed base)", corrupted=False)
            expect(ctx, chart(b[1:], extra=extra, res=RES), "tick-0 tempo dropped")
            expect(ctx, chart([(1, b[0][1])] + b[1:] if k == 1 or b[1][0] > 1 else b[1:], extra=extra, res=RES), "tick-0 tempo shifted to tick 1")
            expect(ctx, chart(b, ts=(), extra=extra, res=RES), "tick-0 signature dropped")
            expect(ctx, chart(b, ts=((1, 4),), extra=extra, res=RES), "tick-0 signature shifted to tick 1")
            expect(ctx, chart(b, ts=((5, 4), (9, 3)), extra=extra, res=RES), "tick-0 signature dropped, later signatures kept")
            for r in ("0", "00"):
                expect(ctx, chart(b, res=r, extra=extra), "Resolution = %s" % r)
                # the chart's resolution is its FIRST Resolution line (C10); later lines do not repair a zero
                expect(ctx, chart(b, res=r, extra=extra, song_extra=['Name = "n"', "Resolution = 192"]), "Resolution = %s, a second Resolution line further down" % r)
                expect(ctx, chart(b, res=r, extra=extra, song_extra=["Resolution = 480", "Resolution = 0"]), "Resolution = %s, more Resolution lines directly below" % r)
            for j in range(k - 1):
                dup = list(b)
                dup[j + 1] = (b[j][0], b[j + 1][1])
                expect(ctx, chart(dup, extra=extra, res=RES), "tempo tick %d duplicated" % b[j][0])
                sw = list(b)
                sw[j], sw[j + 1] = sw[j + 1], sw[j]
                expect(ctx, chart(sw, extra=extra, res=RES), "tempo lines %d and %d swapped" % (j, j + 1))
                back = list(b)
                back[j + 1] = (b[j][0] - 1 if b[j][0] > 0 else 0, b[j + 1][1])
                expect(ctx, chart(back, extra=extra, res=RES), "tempo event %d moved before its predecessor" % (j + 1))
                same = list(b)  # the duplicated tick also REPEATS the tempo value
                same[j + 1] = (b[j][0], b[j][1])
                expect(ctx, chart(same, extra=extra, res=RES), "tempo line %d written twice" % j)
    elif kind == "zero":
        _, k, j = shard
        b, RES = base_of(k)
        z = list(b)
        z[j] = (b[j][0], 0)
        ctx.node()
        ticks = sorted({x + d for x, _ in b for d in (-1, 0, 1, 5) if x + d >= 0})
        for kd in (None,) + KINDS:
            for t in ticks if kd else (0,):
                extra = event_lines(kd, t) if kd else ((), (), ())
                text = chart(z, extra=extra, res=RES)
                got = expect(ctx, text, "tempo %d := 0%s" % (j, "" if kd is None else ", %s event at tick %d" % (kd, t)))
                if got is not None:
                    _queries(ctx, text, z)
    elif kind == "rates":
        # the rate query in its typed tick forms: a bound that is a negative tick, or a tick governed by a zero
        # tempo, never yields a time - the call raises ValueError (whatever the other bound is)
        notes = ["0 = N 0 0", "3 = N 1 2", "8 = N 2 0"]
        for k in (1, 2, 4):
            b = list(TEMPO[:k])
            text = chart(b, extra=((), (), notes))
            neg = [[s_] for s_ in (-1, -2, -5, -192, -10**5, -(2**40))] + [[s_, e_] for s_ in (-1, -3, -10**5) for e_ in (0, 5, 8, 60, 10**6)] + [[s_, -1] for s_ in (0, 3, 100)] + [[-5, -1], [-1, -5]]
            src_ = NPS_SRC % (neg,)
            got = e1.run_probe(e1.compile_probe(src_), text)
            ctx.case((text, "nps-negative"), sample=lambda: dict(tempo=b, calls=len(neg)))
            ctx.evaluations += len(neg)
            exp = [[a, "ValueError"] for a in neg]
            if got != exp:
                e1.report(ctx, "query", text, src_, [exp], got, "notes_per_second with a negative tick bound must raise ValueError (tempo map %r)" % (b,))
            # a zero tempo in the LAST position with the notes in front of it: the chart loads, ticks behind it have no time
            z = list(b) + [(b[-1][0] + 20, 0)]
            ztext = chart(z, extra=((), (), notes))
            zt = z[-1][0]
            zargs = [[zt], [zt + 1], [zt + 100], [0, zt], [0, zt + 5], [3, zt + 1], [zt, zt + 9], [-1, zt]]
            src_ = NPS_SRC % (zargs,)
            got = e1.run_probe(e1.compile_probe(src_), ztext)
            ctx.case((ztext, "nps-zero"), sample=lambda: dict(tempo=z, calls=len(zargs)))
            ctx.evaluations += len(zargs)
            if isinstance(got, list) and got[:1] == ["raises"]:
                ctx.hist["undecided(rejected although model accepts)"] += 1
            elif got != [[a, "ValueError"] for a in zargs]:
                e1.report(ctx, "query", ztext, src_, [[[a, "ValueError"] for a in zargs]], got, "notes_per_second with a tick bound governed by a zero tempo must raise ValueError (tempo map %r)" % (z,))
    elif kind == "long":
        n = shard[1]
        b = [(3 * i, 60000 + 1000 * (i % 7)) for i in range(n)]
        text = chart(b)
        expect(ctx, text, "none (well-formed base, %d tempo events)" % n, corrupted=False)
        _queries(ctx, text, b)
        for t in (-1, -2, -96, -5000, -10**7):
            got = e1.run_probe(e1.compile_probe(NEG_SRC % t), text)
            ctx.evaluations += 1
            if got != "ValueError":
                e1.report(ctx, "query", text, NEG_SRC % t, ["ValueError"], got, "query for negative tick %d on a tempo map of %d events must raise ValueError" % (t, n))
        for j in range(n):
            ctx.node()
            if j + 1 < n:
                dup = list(b)
                dup[j + 1] = (b[j][0], b[j + 1][1])
                expect(ctx, chart(dup), "tempo tick %d duplicated (map of %d events)" % (b[j][0], n))
                sw = list(b)
                sw[j], sw[j + 1] = sw[j + 1], sw[j]
                expect(ctx, chart(sw), "tempo lines %d and %d swapped (map of %d events)" % (j, j + 1, n))
            z = list(b)
            z[j] = (b[j][0], 0)
            for kd in ("text", "N", "Nend", "TS"):
                for off in (0, 1):
                    got = expect(ctx, chart(z, extra=event_lines(kd, b[j][0] + off)), "tempo %d := 0 (map of %d events), %s event at tick %d" % (j, n, kd, b[j][0] + off))
            if j == n - 1:
                got = expect(ctx, chart(z), "last tempo := 0 (map of %d events), nothing governed" % n)
                if got is not None:
                    _queries(ctx, chart(z), z)
    else:
        for k in range(1, 5):
            text = chart(list(TEMPO[:k]))
            _queries(ctx, text, list(TEMPO[:k]))


def _queries(ctx, text, tempo):
    last = tempo[-1][0]
    expq = []
    for t in range(-3, last + 4):
        g = refmodel.governing(tempo, t)
        expq.append([t, "ValueError" if (t < 0 or tempo[g][1] == 0) else "time"])
    got = e1.run_probe(probe, text)
    ctx.evaluations += len(expq)
    ctx.executions += 1
    ctx.hist["query_sweeps"] += 1
    if got != expq:
        e1.report(ctx, "query", text, PROBE_SRC, [expq], got, "queries for negative ticks / ticks governed by a zero tempo must raise ValueError (tempo map %r)" % (tempo,))


def replay(case):
    if "drop" in case:
        got = impl.model_outcome(case["text"], "file", None, (), "model")
        return [] if got == ["err", "ValueError"] else [dict(key="not-rejected", msg="still not rejected with ValueError", case=case)]
    return e1.replay_text_case(case, probe, "query", PROBE_SRC)
