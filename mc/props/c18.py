"""C18 - only documented errors escape; parsed charts always render (E2 edit graph + E1 fragments)."""

from __future__ import annotations

import itertools

from .. import impl
from ..chartgen import mk

ID = "C18"
LEVEL = "model_checking"
ENGINE = "E2 explicit-state BFS over the edit graph of chart texts + E1 fragment-sequence enumeration"
RULE = (
    "E2: from 3 well-formed seed charts, BFS over texts (state = text, de-duplicated by hash within a shard) through line edits "
    "(delete / duplicate / swap-adjacent at every line) to depth 2, character edits (replace / insert from {0,9,space,\",=,[,{,},x} "
    "or delete at every position) to depth 1, and character edit followed by line edit; E1: every sequence of <= K structural "
    "fragments (scanner level) and every body of <= 3 lines per section over that section's fragment alphabet in a complete "
    "skeleton, body pairs, extreme skeletons. Every text is parsed; outcome must be a chart that renders (str/repr of chart, "
    "tracks, events) or a documented error. distinct = distinct text; non-trivial = text differs from every seed"
)
ASSUMPTIONS = [
    "documented errors: ValueError (and subclasses), RegexNotMatchError, MissingRequiredField",
    "numeric tokens stay within 8 digits and time-signature exponents below 64 (the property's quantifier)",
    "states are de-duplicated per shard; the same text reached in two shards is parsed twice and counted twice",
]

SEEDS = (
    mk(res=192, song_extra=['Name = "S"', "Offset = 0", "Player2 = bass"], sync=["0 = TS 4", "0 = B 120000", "96 = TS 3 3", "192 = B 90500", "200 = A 1500000"], events=['0 = E "section a"', '10 = E "lyric la"', '200 = E "end"'], tracks=[("ExpertSingle", ["0 = N 0 0", "0 = N 1 0", "0 = S 2 100", "48 = N 2 24", "48 = E solo", "96 = N 7 0", "192 = N 3 0", "192 = N 6 0"]), ("HardDrums", ["5 = N 1 0", "100 = N 5 0"])]),
    mk(res=1, sync=["0 = B 1", "0 = TS 1 0", "3 = B 99999999"], events=['3 = E "x"'], tracks={"EasyKeyboard": ["1 = N 4 9", "1 = N 0 2", "2 = S 2 0", "4 = N 7 1"]}, nl="\r\n"),
    mk(res=480, song_extra=['Genre = "g"', "Difficulty = 3"], sync=["0 = TS 7 2", "0 = B 60000", "1 = B 200000", "2 = TS 9"], events=[], tracks=[("MediumGHLBass", []), ("ExpertSingle", ["0 = E a", "7 = N 2 0", "7 = N 5 0", "9 = N 2 0", "9 = N 6 0"])], extra=[("Foo", ["bar", "0 = N 0 0"])]),
)
CHARS = ("0", "9", " ", '"', "=", "[", "{", "}", "x")
DOCUMENTED = ("ValueError", "RegexNotMatchError", "MissingRequiredField")

SCRIPT = """text = {text!r}
from chartparse.chart import Chart
from chartparse.exceptions import RegexNotMatchError, MissingRequiredField
try:
    c = Chart.from_file(io.StringIO(text))
except (ValueError, RegexNotMatchError, MissingRequiredField) as e:
    print("documented error:", type(e).__name__); sys.exit(0)
except Exception as e:
    print("ESCAPED:", type(e).__name__, e); sys.exit(1)
try:
    str(c); repr(c)
    for x in (c.metadata, c.sync_track, c.global_events_track):
        str(x); repr(x)
    evs = list(c.sync_track.bpm_events) + list(c.sync_track.time_signature_events) + list(c.sync_track.anchor_events)
    g = c.global_events_track
    evs += list(g.text_events) + list(g.section_events) + list(g.lyric_events)
    for dd in c.instrument_tracks.values():
        for t in dd.values():
            str(t); repr(t)
            evs += list(t.note_events) + list(t.star_power_events) + list(t.track_events)
    for e in evs:
        str(e); repr(e)
except Exception as e:
    print("RENDERING FAILED:", type(e).__name__, e); sys.exit(1)
print("chart parsed and rendered"); sys.exit(0)
"""


def setup():
    impl.load()


def judge(text):
    """None if fine, else (key, message)."""
    P = impl.P
    try:
        c = impl.parse(text)
    except (ValueError, P.RegexNotMatchError, P.MissingRequiredField) as e:
        return None, type(e).__name__ if type(e).__name__ in DOCUMENTED else "ValueError"
    except Exception as e:  # noqa: BLE001
        return ("escape:" + type(e).__name__, "%s escapes from parsing: %s" % (type(e).__name__, str(e)[:120])), None
    try:
        str(c)
        repr(c)
        for x in (c.metadata, c.sync_track, c.global_events_track):
            str(x)
            repr(x)
        for dd in c.instrument_tracks.values():
            for t in dd.values():
                str(t)
                repr(t)
        for _, e in impl.all_events(c):
            str(e)
            repr(e)
        for e in c.sync_track.anchor_events:
            str(e)
            repr(e)
    except Exception as e:  # noqa: BLE001
        return ("render:" + type(e).__name__, "a returned chart cannot be rendered: %s: %s" % (type(e).__name__, str(e)[:120])), None
    return None, "chart"


def check(ctx, text, seen, why):
    h = hash(text)
    if h in seen:
        return False
    seen.add(h)
    bad, outcome = judge(text)
    ctx.case(text, nontrivial=True, sample=lambda: dict(how=why, text=text[:400]))
    ctx.evaluations += 1
    if bad:
        ctx.violation(bad[0], dict(text=text), "%s (text obtained by: %s)" % (bad[1], why), script=SCRIPT.format(text=text))
    else:
        ctx.hist[outcome] += 1
    return True


# ----------------------------------------------------------------------------------------------
# edit graph


def line_edits(text):
    nl = "\r\n" if "\r\n" in text else "\n"
    lines = text.split(nl)
    if lines and lines[-1] == "":
        lines.pop()
    for i in range(len(lines)):
        yield "delete line %d" % i, nl.join(lines[:i] + lines[i + 1 :]) + nl
        yield "duplicate line %d" % i, nl.join(lines[: i + 1] + lines[i:]) + nl
        if i + 1 < len(lines):
            yield "swap lines %d/%d" % (i, i + 1), nl.join(lines[:i] + [lines[i + 1], lines[i]] + lines[i + 2 :]) + nl


def char_edits(text, lo=0, hi=None):
    hi = len(text) if hi is None else hi
    for p in range(lo, hi):
        if text[p] in "\r\n":
            continue
        yield "delete char %d" % p, text[:p] + text[p + 1 :]
        for ch in CHARS:
            if ch != text[p]:
                yield "replace char %d by %r" % (p, ch), text[:p] + ch + text[p + 1 :]
            yield "insert %r at %d" % (ch, p), text[:p] + ch + text[p:]


def plan(tier, seed):
    shards = []
    for si in range(len(SEEDS)):
        n = len(list(line_edits(SEEDS[si])))
        for k in range(8):
            shards.append(("line2", si, k, 8))
        K = 48
        for k in range(K):
            shards.append(("char", si, k, K, tier == "thorough" or si == 1))
    depth = 4 if tier == "quick" else 5
    for a in range(len(FRAGS)):
        shards.append(("frag", a, depth))
    for sec in BODY:
        for a in range(len(BODY[sec])):
            shards.append(("body", sec, a))
    for a in range(len(BODY["sync"]) + 1):
        shards.append(("bodypairs", a))
    shards.append(("extreme",))
    return dict(shards=shards, bounds=dict(seeds=len(SEEDS), line_edit_depth=2, char_then_line="all seeds" if tier == "thorough" else "seed 1", fragment_sequence_length=depth, body_lines=3), budget_s=1500 if tier == "thorough" else 400)


def run_shard(shard, ctx):
    kind = shard[0]
    seen = set()
    if kind == "line2":
        _, si, k, K = shard
        seed = SEEDS[si]
        if k == 0:
            check(ctx, seed, seen, "seed %d" % si)
        for i, (w1, t1) in enumerate(line_edits(seed)):
            if i % K != k:
                continue
            ctx.edges += 1
            check(ctx, t1, seen, "seed %d: %s" % (si, w1))
            for w2, t2 in line_edits(t1):
                if ctx.out_of_time():
                    return
                ctx.edges += 1
                check(ctx, t2, seen, "seed %d: %s; %s" % (si, w1, w2))
    elif kind == "char":
        _, si, k, K, deep = shard
        seed = SEEDS[si]
        n = len(seed)
        lo, hi = n * k // K, n * (k + 1) // K
        for w1, t1 in char_edits(seed, lo, hi):
            ctx.edges += 1
            new = check(ctx, t1, seen, "seed %d: %s" % (si, w1))
            if deep and new:
                for w2, t2 in line_edits(t1):
                    if ctx.out_of_time():
                        return
                    ctx.edges += 1
                    check(ctx, t2, seen, "seed %d: %s; %s" % (si, w1, w2))
    elif kind == "frag":
        _, a, depth = shard
        for d in range(0, depth):
            for rest in itertools.product(FRAGS, repeat=d):
                if ctx.out_of_time():
                    return
                text = "\n".join((FRAGS[a],) + rest) + "\n"
                _light(ctx, text, "fragment sequence")
    elif kind == "body":
        _, sec, a = shard
        alpha = BODY[sec]
        for d in range(0, 3):
            for rest in itertools.product(alpha, repeat=d):
                body = [alpha[a]] + list(rest)
                check(ctx, skeleton(**{sec: body}), seen, "%s body %r" % (sec, body))
    elif kind == "bodypairs":
        a = shard[1]
        sy = BODY["sync"]
        firsts = [[sy[a]] + [x] for x in sy] + [[sy[a]]] if a < len(sy) else [[]]
        tb = [[]] + [[x] for x in BODY["track"]] + [[x, y] for x in BODY["track"] for y in BODY["track"]]
        for sbody in firsts:
            for tbody in tb:
                if ctx.out_of_time():
                    return
                check(ctx, skeleton(sync=sbody, track=tbody), seen, "sync body %r x track body %r" % (sbody, tbody))
    else:
        # LONG tempo maps (1200 / 3000 tempo lines) with sparse chains of every other kind: the first section /
        # lyric / text / note / phrase / track event / time signature only after all of them, one sustain spanning
        # them all, an event every 500 tempo lines - scale must not turn into an internal error either
        for n in (1200, 3000):
            tempo = ["%d = B %d" % (2 * i, 120000 + (i % 7) * 1000) for i in range(n)]
            after = 2 * n + 5
            for what, kw in (
                ("section", dict(events=['%d = E "section s"' % after])),
                ("lyric and text", dict(events=['%d = E "lyric l"' % after, '%d = E "t"' % after])),
                ("note", dict(track=["%d = N 1 0" % after])),
                ("phrase and track event", dict(track=["%d = S 2 4" % after, "%d = E solo" % after])),
                ("time signature", dict(sync=["0 = TS 4"] + tempo + ["%d = TS 3" % after])),
                ("spanning sustain", dict(track=["0 = N 2 %d" % after])),
                ("event every 500 tempo lines", dict(events=['%d = E "x"' % (1000 * k) for k in range(n // 500)], track=["%d = N 0 0" % (1000 * k + 1) for k in range(n // 500)])),
            ):
                kw.setdefault("sync", ["0 = TS 4"] + tempo)
                check(ctx, skeleton(**kw), seen, "tempo map of %d lines, first %s behind it" % (n, what))
        tb = [[]] + [[x] for x in BODY["track"]] + [[x, y] for x in BODY["track"] for y in BODY["track"]]
        for res in ("1", "99999999"):
            for bpm in ("1", "99999999"):
                for tbody in tb:
                    check(ctx, skeleton(song=["Resolution = " + res], sync=["0 = TS 4", "0 = B " + bpm], track=tbody), seen, "extreme skeleton res %s bpm %s, track body %r" % (res, bpm, tbody))
                    check(ctx, skeleton(song=["Resolution = " + res], sync=["0 = TS 4", "0 = B 120000", "7 = B " + bpm], track=tbody), seen, "extreme skeleton res %s second bpm %s, track body %r" % (res, bpm, tbody))


def _light(ctx, text, why):
    """Scanner-level cases: almost all fail in the scanner; counted without per-case hashing."""
    bad, outcome = judge(text)
    ctx.nodes += 1
    ctx.edges += 1
    ctx.executions += 1
    ctx.evaluations += 1
    ctx.nontrivial += 1  # sequences are distinct by construction (shard = first fragment)
    if len(ctx.samples) < 1:
        ctx.samples.append(dict(how=why, text=text))
    if bad:
        ctx.violation(bad[0], dict(text=text), "%s (%s)" % (bad[1], why), script=SCRIPT.format(text=text))
    else:
        ctx.hist[outcome] += 1


FRAGS = (
    "[Song]", "[SyncTrack]", "[Events]", "[ExpertSingle]", "[Foo]", "[Song", "Song]", "[]", "[[x]]", " [Song]",
    "{", "}", " {", "} ",
    "  Resolution = 192", "  0 = B 120000", "  0 = TS 4", "  0 = A 0", '  0 = E "section a"', "  0 = N 0 0", "  0 = S 2 5", "  0 = E solo",
    "", "garbage", "  Resolution = 0", "  0 = B 0", "  0 = TS 4 63", "  5 = N 5 0", "  0 = E ",
)  # fmt: skip

BODY = dict(
    song=["Resolution = 192", "Resolution = 0", "Resolution = 1", "Resolution = 99999999", 'Name = "x"', "Player2 = bass", "Player2 = drums", "Offset = x", "0 = B 1", "", "garbage", 'Resolution = "192"', 'Offset = "5"', "Genre = "],
    sync=["0 = B 120000", "0 = B 0", "0 = B 1", "0 = TS 4", "0 = TS 4 63", "0 = TS 0 0", "99999999 = B 99999999", "5 = B 60000", "5 = TS 1", "3 = A 99999999", "0 = N 0 0", "", "garbage", "99999999 = TS 3", "5 = B 0", "7 = B 0", "99999999 = B 0"],
    events=['0 = E "section a"', '0 = E "lyric b"', '0 = E "x"', '99999999 = E "far"', '5 = E ""', "0 = E solo", "", "garbage", '7 = E "lyric "', '2 = E "a"b"'],
    track=["0 = N 0 0", "0 = N 5 0", "0 = N 6 0", "0 = N 7 99999999", "99999999 = N 4 99999999", "5 = N 1 3", "5 = N 2 4", "0 = S 2 5", "5 = S 2 0", "0 = E solo", "5 = N 7 0", "", "garbage", "0 = S 64 1", "0 = E ", "7 = E \t", '3 = E ""'],
)


def skeleton(song=("Resolution = 192",), sync=("0 = TS 4", "0 = B 120000"), events=(), track=()):
    return mk(song=list(song), sync=list(sync), events=list(events), tracks={"ExpertSingle": list(track)})


def replay(case):
    bad, _ = judge(case["text"])
    return [dict(key=bad[0], msg=bad[1], case=case)] if bad else []
