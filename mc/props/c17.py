"""C17 - parsing is a pure function of the text, free of history and schedule (E2 + E4).

Histories (E2): every sequence of <= D parses over a corpus chosen to collide on the package's memo
tables is executed in a process image forked from a pristine parent (package imported, nothing
parsed); every parse of the sequence must yield the baseline observation of its text, obtained in
a fresh interpreter. States are histories (the memo tables are private: nothing is merged).
Schedules (E4): two real threads each parse one corpus text under the cooperative scheduler of
mc/sched.py; all schedules with <= 1 preemption (thorough: opcode granularity, and 2 preemptions at
call granularity) are executed; each thread's observation must equal its baseline.
"""

from __future__ import annotations

import itertools
import json
import os
import pickle
import subprocess
import sys
from concurrent.futures import ThreadPoolExecutor

from .. import core, impl, sched
from ..chartgen import mk

ID = "C17"
LEVEL = "model_checking"
ENGINE = "E2 parse-history enumeration in forked pristine images + E4 preemption-bounded thread schedules"
RULE = (
    "E2: every sequence of <= D parses over a 36-text corpus, each sequence in a process forked from a pristine parent, every "
    "parse compared with the fresh-interpreter baseline of its text. E4: ordered pairs of corpus texts x {pristine, warm process image} "
    "x both start orders x EVERY switch point (preemption bound 1; thorough adds opcode granularity and bound 2 at call "
    "granularity); distinct = distinct history or distinct (pair, configuration, schedule); non-trivial = history of >= 2 parses "
    "or schedule with >= 1 preemption"
)
ASSUMPTIONS = [
    "interleavings inside one bytecode / inside C code are not explored (irrelevant under the GIL for this pure-Python package)",
    "three or more concurrent parses and more than 2 preemptions are not explored",
    "scheduling points lie in package frames only; the standard library is treated as atomic",
]

SYNC = ["0 = TS 4", "0 = B 120000", "6 = B 90000"]
EV = ['0 = E "section a"', '7 = E "lyric b"']
T_A = ["0 = N 0 3", "0 = N 1 5", "4 = N 2 0", "8 = N 0 2", "8 = N 1 2", "8 = S 2 4", "9 = E solo"]
T_B = ["0 = N 0 5", "0 = N 1 3", "4 = N 2 1", "8 = N 0 2", "8 = N 1 4", "3 = S 2 4"]
T_S = ["0 = N 0 0", "4 = N 1 0", "8 = N 0 0", "8 = N 5 0", "12 = N 7 6"]
CORPUS = {
    "sus-a": (mk(res=12, sync=SYNC, events=EV, tracks={"ExpertSingle": T_A}), None),
    "sus-b": (mk(res=12, sync=SYNC, events=EV, tracks={"ExpertSingle": T_B}), None),
    "res-100": (mk(res=100, sync=SYNC, events=EV, tracks={"ExpertSingle": T_A}), None),
    "single": (mk(res=12, sync=SYNC, events=EV, tracks={"ExpertSingle": T_S}), None),
    "fail-late": (mk(res=12, sync=SYNC, events=EV, tracks=[("ExpertSingle", T_A), ("HardSingle", ["0 = N 0 0", "0 = N 5 0"])]), None),
    "fail-sync": (mk(res=12, sync=["0 = TS 4", "0 = B 120000", "6 = B 90000", "6 = B 80000"], events=EV, tracks={"ExpertSingle": T_A}), None),
    "no-events": ("".join(mk(res=12, sync=SYNC, events=EV, tracks={"ExpertSingle": T_B}).partition("[Events]")[0:1]) + "[ExpertSingle]\n{\n  0 = N 0 0\n}\n", None),
    "crlf": (mk(res=12, sync=SYNC, events=EV, tracks={"ExpertSingle": T_A}, nl="\r\n"), None),
    "selected": (mk(res=12, sync=SYNC, events=EV, tracks=[("ExpertSingle", T_A), ("HardDrums", T_B), ("junk", ["x"])]), [["GUITAR", "EXPERT"]]),
    # same resolution and same second tempo line as sus-a but another tempo history before it: collides with
    # sus-a on every memo key built from (resolution, tempo, tempo tick, tick)
    "retimed": (mk(res=12, sync=["0 = TS 4", "0 = B 100000", "6 = B 90000"], events=EV, tracks={"ExpertSingle": T_A}), None),
    # [Song] values that collide ACROSS kinds between the two texts ("7" as a number / as a string, "rhythm" as
    # Player2 / as a string): a conversion memo shared by fields shows only in the history meta-a, meta-b (or b, a)
    "meta-a": (mk(res=12, song_extra=["Offset = 7", "Player2 = rhythm", "Difficulty = 3"], sync=SYNC, events=EV, tracks={"ExpertSingle": T_S}), None),
    "meta-b": (mk(res=12, song_extra=['Name = "7"', 'Genre = "rhythm"', 'Year = "3"'], sync=SYNC, events=EV, tracks={"ExpertSingle": T_S}), None),
    # a [Song] section that repeats a key; its second "Difficulty" line sits on the line index where meta-a has
    # its (only) one, its second "Offset" where meta-b has none: a per-field position hint shows in [meta-a, meta-dup]
    "meta-dup": (mk(res=12, song_extra=["Difficulty = 1", "Offset = 9", "Difficulty = 2", "Offset = 4", 'Name = "n1"', 'Name = "n2"'], sync=SYNC, events=EV, tracks={"ExpertSingle": T_S}), None),
    # one string, two kinds: 'E "x"' is a text event in [Events] (shared-a) and a track event in a track (shared-b)
    "shared-a": (mk(res=12, sync=SYNC, events=['5 = E "x"', '6 = E "section s"'], tracks={"ExpertSingle": T_S}), None),
    "shared-b": (mk(res=12, sync=SYNC, events=['6 = E "section s"'], tracks={"ExpertSingle": T_S + ['5 = E "x"', "0 = TS 4"]}), None),
    # its last note tick mixes a lane line with an open-note line (the implementation calls the result undefined, but
    # whatever it is, it must stay inside THIS parse): exercises the early exits of the per-note helpers
    "open-mixed": (mk(res=12, sync=SYNC, events=EV, tracks={"ExpertSingle": T_S + ["20 = N 4 7", "20 = N 7 0"]}), None),
    "flag-only": (mk(res=12, sync=SYNC, events=EV, tracks={"ExpertSingle": T_S + ["20 = N 3 5", "24 = N 6 9", "24 = N 5 2"]}), None),
    # the same lane line written twice in one tick (and three times, and a doubled flag): tables keyed by a SUM of
    # per-line bits collide with other combinations ("single" has the plain red / green / open notes)
    "dup-lane": (mk(res=12, sync=SYNC, events=EV, tracks={"ExpertSingle": ["0 = N 0 0", "0 = N 0 0", "4 = N 0 0", "4 = N 0 0", "4 = N 1 0", "8 = N 4 0", "8 = N 4 0", "12 = N 1 0", "12 = N 1 0", "12 = N 1 0", "16 = N 2 0", "16 = N 6 0", "16 = N 6 0"]}), None),
    # two resolutions (HOPO windows 64 and 160) and a track that starts with a tap note: per-track caches that
    # are reset on "the first note" in only one of the first-note branches
    "plain-192": (mk(res=192, sync=["0 = TS 4", "0 = B 120000"], events=EV, tracks={"ExpertSingle": ["0 = N 0 0", "64 = N 1 0", "130 = N 2 0"]}), None),
    "tapfirst-480": (mk(res=480, sync=["0 = TS 4", "0 = B 120000"], events=EV, tracks={"ExpertSingle": ["0 = N 0 0", "0 = N 6 0", "100 = N 1 0", "300 = N 2 0", "370 = N 1 0", "600 = N 1 0", "600 = N 5 0"]}), None),
    # one text per KIND of failure (each leaves the parse at another point; the text after it - also the same text
    # again - must behave as in a fresh interpreter)
    "fail-zero-tempo": (mk(res=12, sync=["0 = TS 4", "0 = B 0"], events=EV, tracks={"ExpertSingle": T_S}), None),
    "fail-zero-tempo-late": (mk(res=12, sync=["0 = TS 4", "0 = B 120000", "6 = B 0"], events=EV, tracks={"ExpertSingle": T_S}), None),
    "fail-res-0": (mk(res=0, sync=SYNC, events=EV, tracks={"ExpertSingle": T_S}), None),
    "fail-no-ts": (mk(res=12, sync=["0 = B 120000"], events=EV, tracks={"ExpertSingle": T_S}), None),
    "fail-no-events-section": (mk(res=12, sync=SYNC, events=EV, tracks={"ExpertSingle": T_S}).replace("[Events]", "[Eventz]"), None),
    # fails inside the note loop of its SECOND track after two notes were built (unsorted over a tempo change)
    "fail-mid-track": (mk(res=100, sync=SYNC, events=EV, tracks=[("ExpertSingle", T_A), ("HardSingle", ["0 = N 0 0", "8 = N 1 0", "4 = N 2 0"])]), None),
    # three phrases; in sp-skip the middle one covers no note, in sp-all every one covers notes, in sp-late only the
    # last does: per-index pools / tables filled "in order of first use" are filled differently by each
    "sp-skip": (mk(res=12, sync=SYNC, events=EV, tracks={"ExpertSingle": ["0 = S 2 3", "8 = S 2 3", "16 = S 2 3", "0 = N 0 0", "1 = N 1 0", "5 = N 2 0", "16 = N 0 0", "17 = N 1 0"]}), None),
    "sp-all": (mk(res=12, sync=SYNC, events=EV, tracks={"ExpertSingle": ["0 = S 2 3", "8 = S 2 3", "16 = S 2 3", "0 = N 0 0", "1 = N 1 0", "8 = N 2 0", "9 = N 3 0", "16 = N 0 0", "17 = N 1 0"]}), None),
    "sp-late": (mk(res=12, sync=SYNC, events=EV, tracks=[("ExpertSingle", ["0 = S 2 3", "8 = S 2 3", "16 = S 2 3", "5 = N 0 0", "17 = N 1 0"]), ("HardSingle", ["0 = S 2 0", "0 = S 2 2", "1 = N 1 0"])]), None),
    # fails inside [Song] AFTER Resolution and other fields were decoded (an unknown Player2 member); the texts after
    # it that lack those fields must still get the documented defaults
    "fail-in-song": (mk(res=12, song_extra=["Offset = 7", "Difficulty = 5", "PreviewStart = 9", 'Name = "dead"', "Player2 = drums"], sync=SYNC, events=EV, tracks={"ExpertSingle": T_S}), None),
    "fail-in-song-2": (mk(res=12, song_extra=["Player2 = rhythm", "Offset = 3", "PreviewEnd = " + "9" * 4400], sync=SYNC, events=EV, tracks={"ExpertSingle": T_S}), None),
    # tempo maps of 11 events at different ticks (fast paths for long maps, tables built per map)
    "long-a": (mk(res=12, sync=["0 = TS 4"] + ["%d = B %d" % (5 * i, 120000 + 1000 * i) for i in range(11)], events=EV[:1], tracks={"ExpertSingle": ["%d = N %d %d" % (13 * i + 1, i % 5, 3) for i in range(4)]}), None),
    "long-b": (mk(res=12, sync=["0 = TS 4"] + ["%d = B %d" % (3 * i * i, 90000 + 500 * i) for i in range(11)], events=EV[:1], tracks={"ExpertSingle": ["%d = N %d %d" % (70 * i + 2, (i + 1) % 5, 7) for i in range(4)]}), None),
}
NAMES = list(CORPUS)
BASELINE = {}

PAIRS_QUICK = [("sus-a", "sus-b"), ("single", "fail-late"), ("sus-a", "retimed"), ("long-a", "long-b")]
PAIRS_THOROUGH = PAIRS_QUICK + [("fail-mid-track", "sus-a"), ("meta-a", "meta-b"), ("sus-a", "res-100"), ("sus-b", "sus-b"), ("fail-late", "sus-a"), ("selected", "crlf"), ("fail-sync", "single"), ("no-events", "sus-a"), ("res-100", "single")]


def setup():
    impl.load()


def observe_item(name):
    text, want = CORPUS[name]
    return impl.model_outcome(text, "file", want, (), "full")


def observe_item_with_warnings(name):
    impl.LOG.n = 0
    o = observe_item(name)
    return [o, impl.LOG.n]


def child_main():
    """Runs in a fresh interpreter: baseline observation of one corpus text."""
    impl.load()
    print(json.dumps(observe_item_with_warnings(sys.argv[1])))


def fresh_baseline(name):
    code = "import sys; sys.path.insert(0, %r); from mc.props import c17; c17.child_main()" % core.VERIF
    env = dict(os.environ, VERIF_REPO=core.REPO, PYTHONHASHSEED="0")
    p = subprocess.run(["/venv/bin/python", "-I", "-c", code, name], capture_output=True, text=True, env=env, timeout=120)
    if p.returncode != 0:
        raise core.HarnessFault("baseline interpreter failed for %s: %s" % (name, p.stderr[-600:]))
    return json.loads(p.stdout.strip().splitlines()[-1])


def plan(tier, seed):
    with ThreadPoolExecutor(max_workers=len(NAMES)) as ex:
        for name, b in zip(NAMES, ex.map(fresh_baseline, NAMES)):
            BASELINE[name] = b
    D = 2 if tier == "quick" else 3
    shards = []
    for first in NAMES:
        shards.append(("hist", first, D))
    shards.append(("bypath",))
    pairs = PAIRS_QUICK if tier == "quick" else PAIRS_THOROUGH
    K = 8
    for a, b in pairs:
        for cfg in ("pristine", "warm"):
            for first in (0, 1):
                for k in range(K):
                    shards.append(("sched1", a, b, cfg, first, "line", k, K))
    if tier == "thorough":
        K2 = 16
        for a, b in pairs:
            for cfg in ("pristine", "warm"):
                for first in (0, 1):
                    for k in range(K2):
                        shards.append(("sched1", a, b, cfg, first, "opcode", k, K2))
        for a, b in pairs[:2]:
            for first in (0, 1):
                for k in range(K2):
                    shards.append(("sched2", a, b, "pristine", first, "call", k, K2))
    return dict(
        shards=shards,
        bounds=dict(history_depth=D, corpus=NAMES, schedule_pairs=[list(p) for p in pairs], preemption_bound=1 if tier == "quick" else "1 (line, opcode), 2 (call granularity, first 2 pairs, pristine)", granularity="line" if tier == "quick" else "line + opcode + call"),
        budget_s=2400 if tier == "thorough" else 400,
    )


# ----------------------------------------------------------------------------------------------
# everything that parses runs in a forked image, so that pool workers stay pristine


def in_fork(fn, *args):
    r, w = os.pipe()
    pid = os.fork()
    if pid == 0:
        os.close(r)
        try:
            try:
                data = pickle.dumps(("ok", fn(*args)))
            except BaseException as e:  # noqa: BLE001
                import traceback

                data = pickle.dumps(("fault", "%s\n%s" % (e, traceback.format_exc())))
            with os.fdopen(w, "wb") as f:
                f.write(data)
        finally:
            os._exit(0)
    os.close(w)
    with os.fdopen(r, "rb") as f:
        data = f.read()
    os.waitpid(pid, 0)
    if not data:
        raise core.HarnessFault("forked image died without a result")
    kind, val = pickle.loads(data)
    if kind == "fault":
        raise core.HarnessFault("in forked image: %s" % val)
    return val


def run_history(seq):
    return [observe_item_with_warnings(n) for n in seq]


HIST_SCRIPT = """{observe_src}

corpus = {corpus!r}     # name -> [text, selection]
history = {history!r}
import json, subprocess
def obs(name):
    t, want = corpus[name]
    return model_outcome(t, "file", want, (), "full")
if len(sys.argv) > 2 and sys.argv[2] == "--baseline":
    print(json.dumps(obs(history[-1]))); sys.exit(0)
base = json.loads(subprocess.run([sys.executable, __file__, sys.path[0], "--baseline"], capture_output=True, text=True).stdout)
got = [obs(n) for n in history][-1]
got = json.loads(json.dumps(got))
print("history", history, ": last parse equals its fresh-interpreter baseline:", got == base)
sys.exit(0 if got == base else 1)
"""


BYPATH_SCRIPT = """{observe_src}
import os, tempfile
from pathlib import Path
from chartparse.chart import Chart
texts = {texts!r}   # equal byte length; written one after the other to ONE path with ONE modification time
order = {order!r}
d = tempfile.mkdtemp(); p = Path(d) / "notes.chart"
bad = 0
for k in order:
    p.write_bytes(texts[k].encode("utf-8")); os.utime(p, ns=(10**18, 10**18))
    got = observe(Chart.from_filepath(p)); want = observe(Chart.from_file(io.StringIO(texts[k])))
    if got != want:
        print("VIOLATED: text", k, "read by path after", order[:order.index(k)], "differs from its own parse"); bad = 1
os.unlink(p); os.rmdir(d)
sys.exit(bad)
"""


def _bypath(ctx):
    return _bypath_orders(ctx, [o for n in (2, 3, 4) for o in itertools.product(range(4), repeat=n)])


def _bypath_orders(ctx, orders):
    """The by-path entry point sees the TEXT that is in the file now: one path, texts of equal byte length written
    one after the other with the same modification time (cp -p, rsync -t, unzip), every order of 3 texts and
    repetitions; each parse equals the parse of its own text."""
    import os
    import tempfile
    from pathlib import Path

    A = CORPUS["sus-a"][0]
    texts = [A, A.replace("0 = N 0 3", "0 = N 2 3"), A.replace("lyric b", "lyric c"), A.replace("6 = B 90000", "6 = B 80000")]
    assert len({len(t.encode()) for t in texts}) == 1
    want = [impl.observe(impl.parse(t)) for t in texts]
    d = tempfile.mkdtemp()
    p = Path(d) / "notes.chart"
    try:
        for order in orders:
            ctx.node()
            ctx.case(("bypath", order), nontrivial=True, sample=lambda: dict(order=list(order)))
            for sel in (None, [(impl.P.Instrument.GUITAR, impl.P.Difficulty.EXPERT)]):
                for i, k in enumerate(order):
                    p.write_bytes(texts[k].encode("utf-8"))
                    os.utime(p, ns=(10**18, 10**18))
                    got = impl.observe(impl.P.Chart.from_filepath(p) if sel is None else impl.P.Chart.from_filepath(p, want_tracks=sel))
                    ctx.evaluations += 1
                    if got != want[k]:
                        from ..refmodel import diff

                        ctx.violation("history-dependent", dict(kind="bypath", order=list(order[: i + 1])), "one path, texts of equal length and equal modification time written in the order %r: the by-path parse of text %d differs from the parse of that text: %s" % (list(order[: i + 1]), k, diff(got, want[k])), script=BYPATH_SCRIPT.format(observe_src=impl.OBSERVE_SRC, texts=texts, order=list(order[: i + 1])))
                        return
    finally:
        if p.exists():
            os.unlink(p)
        os.rmdir(d)


def run_shard(shard, ctx):
    kind = shard[0]
    if kind == "bypath":
        return _bypath(ctx)
    if kind == "hist":
        _, first, D = shard
        ctx.node()
        for d in range(D):
            for rest in itertools.product(NAMES, repeat=d):
                if ctx.out_of_time():
                    return
                seq = (first,) + rest
                res = in_fork(run_history, seq)
                ctx.case(("hist", seq), nontrivial=len(seq) >= 2, sample=lambda: dict(history=list(seq)))
                for k, (name, got) in enumerate(zip(seq, res)):
                    ctx.evaluations += 1
                    got = json.loads(json.dumps(got))
                    ctx.hist["parse_" + got[0][0]] += 1
                    if got != BASELINE[name]:
                        from ..refmodel import diff

                        why = diff(got[0], BASELINE[name][0]) or "warning records %r vs %r" % (got[1], BASELINE[name][1])
                        hist = list(seq[: k + 1])
                        ctx.violation("history-dependent", dict(kind="hist", history=hist), "after parsing %r in one process, the parse of %r differs from its fresh-interpreter result: %s" % (hist[:-1], name, why), script=HIST_SCRIPT.format(observe_src=impl.OBSERVE_SRC, corpus={n: list(CORPUS[n]) for n in set(hist)}, history=hist))
                        break
        return
    res = in_fork(_sched_shard, shard)
    for k, v in res["counts"].items():
        setattr(ctx, k, getattr(ctx, k) + v)
    ctx.hist.update(res["hist"])
    ctx.samples.extend(res["samples"][:1])
    for v in res["violations"]:
        ctx.violation(**v)
    ctx.capped = ctx.capped or res["capped"]


SCHED_SCRIPT = """# schedule replay needs the explorer's scheduler: run
#   cd /verif && ./check C17 --replay <this file's .json twin>
print("use: ./check C17 --replay <json>"); sys.exit(2)
"""


def _bodies(a, b):
    return [lambda: observe_item(a), lambda: observe_item(b)]


def _execute_here(a, b, first, gran, switches):
    if gran == "opcode":
        # CPython 3.12 delivers no opcode events to the first thread that ever asks for them in a process
        # (instruction instrumentation is switched on lazily); a traced dummy call primes it
        _prime_opcode_tracing()
    s = sched.Sched(switches, gran, first)
    return s.run(_bodies(a, b))


def _prime_opcode_tracing():
    import chartparse.tick as t

    sched.Sched([], "opcode", 0).run([lambda: t.between(1, 2), lambda: t.between(1, 2)])


def _execute(a, b, cfg, first, gran, switches, tables):
    """One execution of a schedule. cfg "pristine": in a process image forked from one that has imported
    the package but never parsed anything (every lazily built table, memo and cache is in its initial
    state, whatever the package keeps and wherever it keeps it); cfg "warm": in this process, after both
    texts were parsed once."""
    if cfg == "pristine":
        return in_fork(_execute_here, a, b, first, gran, switches)
    return _execute_here(a, b, first, gran, switches)


def _sched_shard(shard):
    import time

    kind, a, b, cfg, first, gran, k, K = shard
    deadline = core._DEADLINE or (time.time() + 3600)
    counts = dict(nodes=0, edges=0, evaluations=0, executions=0, nontrivial=0)
    hist, samples, violations = {}, [], []
    capped = False
    tables = None
    if cfg == "warm":
        for n in (a, b):
            observe_item(n)
        if gran == "opcode":
            _prime_opcode_tracing()
    names = (a, b)
    base = [json.loads(json.dumps(BASELINE[n][0])) for n in names]

    def judge(out, switches):
        bad = None
        for tid in (0, 1):
            counts["evaluations"] += 1
            got = out[tid][1] if out[tid][0] == "ok" else ["thread-exception", out[tid][1]]
            got = json.loads(json.dumps(got))
            if got != base[tid] and bad is None:
                from ..refmodel import diff

                bad = "thread %d (text %r): %s" % (tid, names[tid], diff(got, base[tid]) if isinstance(got, list) and len(got) == 2 and isinstance(got[1], dict) and isinstance(base[tid][1], dict) else "%r vs %r" % (got[:2], base[tid][:2]))
        if bad and len(violations) < 3:
            violations.append(dict(key="schedule-dependent", case=dict(kind="sched", a=a, b=b, cfg=cfg, first=first, gran=gran, switches=list(switches)), msg="concurrent parses of %r and %r (%s process image, thread %d starts, %s granularity, switch at steps %r): %s" % (a, b, cfg, first, gran, list(switches), bad), script=SCHED_SCRIPT))
        return bad is None

    def run(switches, check_det=False):
        out, steps, by, sig = _execute(a, b, cfg, first, gran, switches, tables)
        counts["executions"] += 1
        counts["nodes"] += 1
        counts["edges"] += steps
        if switches:
            counts["nontrivial"] += 1
        judge(out, switches)
        if check_det:
            out2, steps2, by2, sig2 = _execute(a, b, cfg, first, gran, switches, tables)
            if out2 != out:
                # the same schedule, replayed, gives another observation: state outside the memo tables the
                # harness resets leaks from one execution into the next - a history dependence of the code
                if len(violations) < 3:
                    violations.append(dict(key="history-dependent", case=dict(kind="sched", a=a, b=b, cfg=cfg, first=first, gran=gran, switches=list(switches), twice=True), msg="the same schedule %r of concurrent parses of %r and %r, executed twice in one process, yields different observations: parsing depends on what was parsed before" % (list(switches), a, b), script=SCHED_SCRIPT))
            elif sig2 != sig and cfg == "pristine":
                hist["step_signature_differs_on_replay(hidden state outside functools memo tables)"] = hist.get("step_signature_differs_on_replay(hidden state outside functools memo tables)", 0) + 1
        return out, steps, by

    # bound 0: thread `first` runs to completion, then the other
    out, steps, by = run([], check_det=True)
    if min(by) == 0:
        raise core.HarnessFault("a thread executed no scheduling point at %s granularity: tracing is not active" % gran)
    hist["bound0"] = hist.get("bound0", 0) + 1
    n_first = by[first]
    samples.append(dict(pair=[a, b], memo=cfg, first=first, granularity=gran, steps_first_thread=n_first, steps_total=steps, schedule="switch points p = %d mod %d" % (k, K)))
    i = 0
    for p in range(1 + k, n_first, K):
        if time.time() > deadline:
            capped = True
            break
        i += 1
        o1, st1, by1 = run([p], check_det=(i % 50 == 0))
        hist["bound1"] = hist.get("bound1", 0) + 1
        if kind == "sched2":
            n_other = by1[1 - first]
            for p2 in range(p + 1, p + n_other, 7):
                if time.time() > deadline:
                    capped = True
                    break
                run([p, p2])
                hist["bound2"] = hist.get("bound2", 0) + 1
    return dict(counts=counts, hist=hist, samples=samples, violations=violations, capped=capped)


def replay(case):
    if case.get("kind") == "bypath":
        from ..core import Ctx
        import time

        c2 = Ctx(0, time.time() + 600)
        _bypath_orders(c2, [tuple(case["order"])])
        return c2.violations
    if case.get("kind") == "hist":
        plan_baselines(case["history"])
        res = in_fork(run_history, tuple(case["history"]))
        got = json.loads(json.dumps(res[-1]))
        if got != BASELINE[case["history"][-1]]:
            return [dict(key="history-dependent", msg="still differs", case=case)]
        return []
    plan_baselines([case["a"], case["b"]])

    def go():
        if case["cfg"] == "warm":
            observe_item(case["a"])
            observe_item(case["b"])
        out, _, _, _ = _execute_here(case["a"], case["b"], case["first"], case["gran"], case["switches"])
        return out

    out = in_fork(go)
    for tid, n in enumerate((case["a"], case["b"])):
        got = json.loads(json.dumps(out[tid][1] if out[tid][0] == "ok" else ["thread-exception", out[tid][1]]))
        if got != json.loads(json.dumps(BASELINE[n][0])):
            return [dict(key="schedule-dependent", msg="thread %d still differs" % tid, case=case)]
    return []


def plan_baselines(names):
    for n in set(names):
        if n not in BASELINE:
            BASELINE[n] = fresh_baseline(n)
