"""C20 - every module is importable first; import order does not matter (engine E2).

Explicit-state BFS over import histories. Every transition runs a FRESH interpreter that executes
the history plus one more import (mc/imp_child.py). States are merged by a canonical fingerprint of
the interpreter's chartparse module table (loaded modules, every public name -> type / defining
module / qualname, and the partition of names by object identity). The merging argument (the import
system's future depends only on sys.modules and the namespaces reachable from it) is validated by
running all ordered pairs (thorough: triples, and seed-chosen full permutations) UN-merged and
requiring the fingerprint predicted by the merged graph.
"""

from __future__ import annotations

import itertools
import json
import os
import pkgutil
import random
import subprocess
from concurrent.futures import ThreadPoolExecutor

from .. import core

ID = "C20"
LEVEL = "model_checking"
ENGINE = "E2 explicit-state BFS over import histories, one fresh interpreter per transition"
RULE = (
    "BFS from the empty history over 'import chartparse.M' AND 'from chartparse import M' for every module M of the package (pkgutil listing + the package itself); after each import the client's name, sys.modules[M] and the package attribute must be one module object; "
    "states merged by module-table fingerprint, to a fixed point; plus all ordered pairs (thorough: triples and seed-chosen "
    "full permutations) executed un-merged and compared with the merged graph; distinct = distinct history; non-trivial = all"
)
ASSUMPTIONS = [
    "fresh interpreter = /venv/bin/python -I with the repository first on sys.path",
    "object identity is compared through the alias partition of names (identities are not comparable across processes)",
]

PY = "/venv/bin/python"
CHILD = os.path.join(os.path.dirname(os.path.dirname(os.path.abspath(__file__))), "imp_child.py")


def setup():
    pass


def modules():
    pkg = os.path.join(core.REPO, "chartparse")
    names = sorted("chartparse." + m.name for m in pkgutil.iter_modules([pkg]))
    return ["chartparse"] + names


def run_child(hist, flags=()):
    p = subprocess.run([PY, "-I"] + list(flags) + [CHILD, core.REPO] + list(hist), capture_output=True, text=True, timeout=120)
    if p.returncode != 0 or not p.stdout.strip():
        raise core.HarnessFault("import child failed for %r: %s" % (hist, p.stderr[-500:]))
    return json.loads(p.stdout.strip().splitlines()[-1])


def plan(tier, seed):
    return dict(shards=[(tier, seed)], bounds=dict(modules=modules(), unmerged="ordered pairs" if tier == "quick" else "ordered pairs, ordered triples, 24 seed-chosen full permutations"), budget_s=1200)


SCRIPT = """import subprocess
hist = {hist!r}
code = '''import sys, importlib; sys.path.insert(0, sys.argv[1])
for m in sys.argv[2:]:
    if m.startswith("star:"):
        exec("from %s import *" % m[5:], dict()); continue
    name = m[5:] if m.startswith("from:") else m
    if m.startswith("from:"):
        ns = dict(); exec("from %s import %s as bound" % tuple(name.rsplit(".", 1)), ns); bound = ns["bound"]
    else:
        bound = importlib.import_module(name)
    assert bound is sys.modules[name] and bound.__name__ == name, "%s: client name bound to %r" % (m, getattr(bound, "__name__", bound))
    if "." in name: assert getattr(sys.modules[name.rsplit(".", 1)[0]], name.rsplit(".", 1)[1]) is bound, "%s: package attribute is another object" % m
'''
r = subprocess.run([sys.executable, "-I", "-c", code, sys.path[0]] + hist, capture_output=True, text=True)
print(r.stderr[-800:])
sys.exit(1 if r.returncode else 0)
"""


def run_shard(shard, ctx):
    tier, seed = shard
    mods = modules()
    # both client spellings of every import: `import chartparse.x` and `from chartparse import x`
    ops = mods + ["from:" + m for m in mods if "." in m]
    pool = ThreadPoolExecutor(max_workers=core.NPROC)
    init = run_child([])
    states = {init["fingerprint"]: dict(rep=(), loaded=init["loaded"])}
    trans = {}
    failing = {}
    frontier = [init["fingerprint"]]
    depth = 0
    ctx.nodes += 0
    while frontier:
        depth += 1
        jobs = [(fp, m, states[fp]["rep"] + (m,)) for fp in frontier for m in ops]
        outs = list(pool.map(lambda j: run_child(j[2]), jobs))
        nxt = []
        for (fp, m, hist), out in zip(jobs, outs):
            ctx.case(hist, sample=lambda: dict(history=list(hist), result=out["results"][-1][1], loaded=len(out["loaded"])))
            ctx.evaluations += 1
            res = out["results"][-1][1]
            if res != "ok" and m not in failing:
                failing[m] = (hist, res)
            for mn, why in out.get("star_failures", ()):
                if "star:" + mn not in failing:
                    failing["star:" + mn] = (tuple(hist) + ("star:" + mn,), "from %s import * fails: %s" % (mn, why))
            ctx.hist["import_ok" if res == "ok" else "import_failed"] += 1
            nfp = out["fingerprint"]
            trans[(fp, m)] = nfp
            if nfp not in states:
                states[nfp] = dict(rep=hist, loaded=out["loaded"], table=out["table"], aliases=out["aliases"])
                nxt.append(nfp)
        frontier = nxt
        if ctx.out_of_time():
            break
    graph = (len(states), len(trans))
    ctx.extra["bfs_depth"] = depth
    for m, (hist, res) in sorted(failing.items(), key=lambda kv: (len(kv[1][0]), kv[0])):
        ctx.violation("import-fails:" + m, dict(history=list(hist)), "import %s fails after history %r in a fresh interpreter: %s" % (m, list(hist[:-1]), res), script=SCRIPT.format(hist=list(hist)))
    # all states containing every module must be one state
    full = [fp for fp, s in states.items() if set(mods) <= set(s["loaded"])]
    ctx.extra["full_states"] = len(full)
    if len(full) > 1:
        a, b = states[full[0]], states[full[1]]
        from ..refmodel import diff

        d = diff(a.get("table", {}), b.get("table", {})) or diff(a.get("aliases", []), b.get("aliases", []))
        ctx.violation("order-dependent-namespace", dict(history=list(b["rep"]), other=list(a["rep"])), "import histories %r and %r both load every module but leave different public names / objects: %s" % (list(a["rep"]), list(b["rep"]), d))
    if not full and not failing:
        raise core.HarnessFault("no state loads every module")

    # un-merged validation of the merged graph
    def predict(hist):
        fp = init["fingerprint"]
        for m in hist:
            fp = trans.get((fp, m))
            if fp is None:
                return None
        return fp

    hists = [h for h in itertools.permutations(mods, 2)]
    hists += [h for h in itertools.permutations(ops[len(mods):], 2)]
    if tier == "thorough":
        hists += [(a, b) for a in ops for b in ops if a != b and (a.startswith("from:") != b.startswith("from:")) and a[5:] != b and b[5:] != a]
    if tier == "thorough":
        hists += [h for h in itertools.permutations(mods, 3)]
        rnd = random.Random(seed)
        for _ in range(24):
            p = list(mods)
            rnd.shuffle(p)
            hists.append(tuple(p))
    outs = list(pool.map(run_child, hists))
    for h, out in zip(hists, outs):
        ctx.case(("unmerged",) + h)
        ctx.evaluations += 1
        ctx.hist["unmerged_histories"] += 1
        bad = [r for r in out["results"] if r[1] != "ok"]
        if bad and not failing:
            ctx.violation("import-fails:" + bad[0][0], dict(history=list(h)), "import %s fails in history %r: %s" % (bad[0][0], list(h), bad[0][1]), script=SCRIPT.format(hist=list(h)))
        pf = predict(h)
        if pf is not None and pf != out["fingerprint"] and not failing:
            ctx.violation("merge-unsound", dict(history=list(h)), "history %r reaches module table %s but the merged graph predicts %s: two import orders give different namespaces" % (list(h), out["fingerprint"], pf))
        if len(h) == len(mods) and set(h) == set(mods) and full and out["fingerprint"] != full[0] and not bad:
            ctx.violation("order-dependent-namespace", dict(history=list(h), other=list(states[full[0]]["rep"])), "full permutation %r leaves a different module table than %r" % (list(h), list(states[full[0]]["rep"])))
    # the way the fresh interpreter is started is part of "a fresh interpreter": every first import and the full
    # import also with assertions stripped (-O) and with docstrings stripped as well (-OO)
    jobs = [((m,), fl) for fl in (("-O",), ("-OO",)) for m in mods] + [(tuple(mods), fl) for fl in (("-O",), ("-OO",))]
    outs = list(pool.map(lambda j: run_child(j[0], j[1]), jobs))
    for (h, fl), out in zip(jobs, outs):
        ctx.case(("flags", fl, h))
        ctx.evaluations += 1
        ctx.hist["optimised_interpreter_imports"] += 1
        bad = [r for r in out["results"] if r[1] != "ok"] + [["star:" + mn, why] for mn, why in out.get("star_failures", ())]
        if bad:
            ctx.violation("import-fails:%s:%s" % (fl[0], bad[0][0]), dict(history=list(h), flags=list(fl)), "import %s fails in a fresh interpreter started with %s (history %r): %s" % (bad[0][0], fl[0], list(h), bad[0][1]), script=SCRIPT.format(hist=list(h)).replace('[sys.executable, "-I", "-c"', '[sys.executable, "-I", "%s", "-c"' % fl[0]))
    # something else called chartparse on a LATER sys.path entry (an older installed release, a stub package): the
    # tree in front still provides every module
    import shutil
    import tempfile

    ddir = tempfile.mkdtemp(prefix="c20decoy_")
    try:
        os.makedirs(os.path.join(ddir, "chartparse"))
        open(os.path.join(ddir, "chartparse", "__init__.py"), "w").write("DECOY = True\n")
        open(os.path.join(ddir, "chartparse", "tick.py"), "w").write("DECOY = True\n")
        djobs = [(m,) for m in mods] + [tuple(mods)]

        def drun(h):
            p = subprocess.run([PY, "-I", CHILD, core.REPO] + list(h), capture_output=True, text=True, timeout=120, env=dict(os.environ, VERIF_DECOY_PATH=ddir))
            if p.returncode != 0 or not p.stdout.strip():
                raise core.HarnessFault("import child (decoy on a later path entry) failed for %r: %s" % (h, p.stderr[-500:]))
            return json.loads(p.stdout.strip().splitlines()[-1])

        outs = list(pool.map(drun, djobs))
        for h, out in zip(djobs, outs):
            ctx.case(("decoy", h))
            ctx.evaluations += 1
            ctx.hist["imports_with_a_second_chartparse_later_on_the_path"] += 1
            bad = [r for r in out["results"] if r[1] != "ok"]
            if bad:
                ctx.violation("import-fails:shadowed:%s" % bad[0][0], dict(history=list(h), deployment="decoy"), "import %s goes wrong when a LATER sys.path entry also has a package called chartparse (history %r): %s" % (bad[0][0], list(h), bad[0][1]))
    finally:
        shutil.rmtree(ddir, ignore_errors=True)
    # the way the package is DEPLOYED is part of "a fresh interpreter" too: the same modules (and the data files next
    # to them) packed into a zip archive on sys.path (zipapp, bundlers) - every first import and the full import
    import shutil
    import tempfile
    import zipfile

    zdir = tempfile.mkdtemp(prefix="c20zip_")
    try:
        zpath = os.path.join(zdir, "bundle.zip")
        with zipfile.ZipFile(zpath, "w") as z:
            pkg = os.path.join(core.REPO, "chartparse")
            for root, dirs, files in os.walk(pkg):
                dirs[:] = [d for d in dirs if d != "__pycache__"]
                for fn in files:
                    if not fn.endswith(".pyc"):
                        fpath = os.path.join(root, fn)
                        z.write(fpath, os.path.relpath(fpath, core.REPO))
        zjobs = [(m,) for m in mods] + [tuple(mods), tuple(mods[::-1])]

        def zrun(h):
            p = subprocess.run([PY, "-I", CHILD, zpath] + list(h), capture_output=True, text=True, timeout=120)
            if p.returncode != 0 or not p.stdout.strip():
                raise core.HarnessFault("import child (zip deployment) failed for %r: %s" % (h, p.stderr[-500:]))
            return json.loads(p.stdout.strip().splitlines()[-1])

        outs = list(pool.map(zrun, zjobs))
        for h, out in zip(zjobs, outs):
            ctx.case(("zip", h))
            ctx.evaluations += 1
            ctx.hist["zip_deployment_imports"] += 1
            bad = [r for r in out["results"] if r[1] != "ok"] + [["star:" + mn, why] for mn, why in out.get("star_failures", ())]
            if bad:
                ctx.violation("import-fails:zip:%s" % bad[0][0], dict(history=list(h), deployment="zip"), "import %s fails in a fresh interpreter when the package is loaded from a zip archive (history %r): %s" % (bad[0][0], list(h), bad[0][1]))
            elif len(h) == len(mods) and full and (out["table"], out["aliases"]) != (states[full[0]].get("table"), states[full[0]].get("aliases")) and "table" in states[full[0]]:
                from ..refmodel import diff

                ctx.violation("order-dependent-namespace", dict(history=list(h), deployment="zip"), "the full import from a zip archive leaves other public names / objects than from the directory: %s" % (diff(out["table"], states[full[0]]["table"]) or diff(out["aliases"], states[full[0]]["aliases"])))
    finally:
        shutil.rmtree(zdir, ignore_errors=True)
    pool.shutdown()
    # states / transitions of the merged graph (root is added by the runner); un-merged runs are traces
    ctx.nodes, ctx.edges = graph[0] - 1, graph[1]


def replay(case):
    if case.get("deployment") == "decoy":
        import shutil
        import tempfile

        ddir = tempfile.mkdtemp(prefix="c20decoy_")
        try:
            os.makedirs(os.path.join(ddir, "chartparse"))
            open(os.path.join(ddir, "chartparse", "__init__.py"), "w").write("DECOY = True\n")
            open(os.path.join(ddir, "chartparse", "tick.py"), "w").write("DECOY = True\n")
            p = subprocess.run([PY, "-I", CHILD, core.REPO] + list(case["history"]), capture_output=True, text=True, timeout=120, env=dict(os.environ, VERIF_DECOY_PATH=ddir))
            out = json.loads(p.stdout.strip().splitlines()[-1])
        finally:
            shutil.rmtree(ddir, ignore_errors=True)
        bad = [r for r in out["results"] if r[1] != "ok"]
        return [dict(key="import-fails:shadowed:" + bad[0][0], msg=bad[0][1], case=case)] if bad else []
    if case.get("deployment") == "zip":
        import shutil
        import tempfile
        import zipfile

        zdir = tempfile.mkdtemp(prefix="c20zip_")
        try:
            zpath = os.path.join(zdir, "bundle.zip")
            with zipfile.ZipFile(zpath, "w") as z:
                for root, dirs, files in os.walk(os.path.join(core.REPO, "chartparse")):
                    dirs[:] = [d for d in dirs if d != "__pycache__"]
                    for fn in files:
                        if not fn.endswith(".pyc"):
                            z.write(os.path.join(root, fn), os.path.relpath(os.path.join(root, fn), core.REPO))
            p = subprocess.run([PY, "-I", CHILD, zpath] + list(case["history"]), capture_output=True, text=True, timeout=120)
            out = json.loads(p.stdout.strip().splitlines()[-1])
        finally:
            shutil.rmtree(zdir, ignore_errors=True)
        bad = [r for r in out["results"] if r[1] != "ok"]
        return [dict(key="import-fails:zip:" + bad[0][0], msg=bad[0][1], case=case)] if bad else []
    out = run_child(case["history"], case.get("flags", ()))
    bad = [r for r in out["results"] if r[1] != "ok"]
    if bad:
        return [dict(key="import-fails:" + bad[0][0], msg=bad[0][1], case=case)]
    if "other" in case:
        o2 = run_child(case["other"])
        if set(o2["loaded"]) == set(out["loaded"]) and o2["fingerprint"] != out["fingerprint"]:
            return [dict(key="order-dependent-namespace", msg="fingerprints differ", case=case)]
    return []
