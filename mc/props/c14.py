"""C14 - unparsable lines are skipped locally; each line is claimed at most once (E1 + E3)."""

from __future__ import annotations

import itertools

from .. import automata as A
from .. import e1, impl, linelang, refmodel
from ..chartgen import RAW, mk

ID = "C14"
LEVEL = "model_checking"
ENGINE = "E1 bounded-exhaustive generation-tree explorer + E3 product automata"
RULE = (
    "E1: for the sync, events and instrument section of a base chart (5 lines each): every assignment of 0, 1 or 2 unparsable "
    "lines to each of the 6 insertion points, for every garbage line of the section's alphabet and one mixed assignment; "
    "oracle: observation identical to the base parse and warning records grow by exactly the number of inserted lines. "
    "E3: pairwise products of the captured recognisers of the sync and of the instrument section (empty intersection, strings of "
    "any length). distinct = distinct chart text; non-trivial = at least one inserted line"
)
ASSUMPTIONS = [
    "garbage lines are chosen outside every grey zone of DESIGN.md 3.4",
    "warning records are counted (any logger, WARNING or higher); wording and logger names are free",
]

BASE = dict(
    sync=["0 = TS 4", "0 = B 120000", "10 = B 90000", "10 = TS 3 3", "20 = A 5000"],
    events=['0 = E "section a"', '5 = E "lyric b"', '5 = E "txt"', '12 = E "lyric c d"', '30 = E "section e"'],
    track=["0 = N 0 0", "0 = N 1 4", "3 = S 2 10", "4 = E solo", "12 = N 7 2"],
)
DUPS = dict(
    sync=["0 = TS 4", "0 = B 120000", "10 = TS 3 3", "10 = TS 3 3", "20 = A 5000", "20 = A 5000"],
    events=['0 = E "section a"', '0 = E "section a"', '5 = E "lyric b"', '5 = E "lyric b"', '7 = E "txt"', '7 = E "txt"'],
    track=["0 = N 0 0", "2 = N 1 1", "3 = S 2 10", "3 = S 2 10", "4 = E solo", "4 = E solo"],
)
# un-indented look-alikes of the structural lines: a lone brace with trailing blanks, a header-like line
# unparsable lines indented MORE deeply (and less, and with TABs) than the lines around them
INDENTED = ["    garbage", "\t\tgarbage", "      2 = N 8 0", "    ", RAW + "garbage", RAW + " x", "  \t  5 = Q 1"]
BRACES = INDENTED + [RAW + "{ ", RAW + "} ", RAW + "}\t", RAW + " }", RAW + "{{", RAW + "[Song]", RAW + "   ", RAW + "", "{", "}", "50% garbage", "0 = N 1 0 % x", "%s %d %(x)s", "100%%", "{0} {x} {} {{", "0 = TS 4 0 = B 120000", "5 = B 1 6 = A 7", "1 = N 0 0 2 = N 1 0", '3 = E solo 4 = E "x"', 'x 0 = E "section a"', "junk 0 = N 0 0", "junk 0 = B 1"]
# numbers a lenient conversion (int(), float()) would accept although the line language does not: zero-padded lane /
# kind indices, signs, digit-group underscores, exponents, hexadecimal
LENIENT = dict(
    sync=["0 = B +120000", "0 = B 120_000", "0 = B 1e5", "0 = B 120000.0", "0 = TS +4", "0 = TS 4 +2", "1_0 = B 5", "+5 = B 7", "5 = A 1_0", "0 = B 0x10", "0 = B -1", "-0 = TS 4"],
    events=['+3 = E "x"', '3_0 = E "x"', '0x3 = E "x"', '3.0 = E "x"', '-3 = E "x"'],
    track=["2 = N 03 0", "2 = N 00 0", "2 = N 07 0", "2 = S 02 5", "2 = N +1 0", "2 = N 1 +0", "+2 = N 1 0", "2 = N 1 0.0", "2 = N 1 0x0", "2 = N 1_0 0", "2 = N 1 1_0", "2 = S +2 5", "2 = N 10 0", "2 = N -1 0", "2 = N 1 -1"],
)
# a whole valid line of the section's own kinds behind (or in front of) junk: a recogniser applied with search()
# instead of match(), or without its anchors, would dig it out
# the kind letters and keywords are case-sensitive
LOWERCASE = dict(sync=["5 = b 1", "5 = ts 4", "5 = Ts 4 2", "5 = a 1"], events=['3 = e "x"', '3 = e "lyric l"'], track=["2 = n 1 0", "2 = s 2 5", "2 = e solo"])
# lines of the [Song] kind are foreign everywhere else: reported there, and never read as metadata
SONGKIND = ["Offset = 7", 'Year = "x"', "Difficulty = 3", 'MusicStream = "x.ogg"', "Resolution = 96", "Player2 = bass", 'Name = "n"']
PREFIXED = dict(
    sync=["x0 = B 1", "-5 = TS 4", "// 5 = A 1", "1.5 = B 1", "5 = B 1 //", "5 = TS 4 x"],
    events=['x3 = E "x"', '// 3 = E "x"', '-3 = E "lyric l"', '1.3 = E "section s"'],
    track=["x2 = S 2 5", "-2 = S 2 5", "// 2 = S 2 5", "1.2 = S 2 5", "2 = N 8 0 2 = S 2 5", "x2 = E solo", "// 2 = N 1 0", "1.2 = N 1 0", "2 = S 2 5 //", "2 = N 1 0 x"],
)
# unparsable lines that carry the SAME "<tick> = <kind letter>" head as a line of the base section
SAMEHEAD = dict(sync=["10 = B x", "10 = TS", "10 = TS x 3", "20 = A", "0 = B 1 2"], events=["12 = E two words", "30 = E", "5 = E x y", '5 = E "a" b', "0 = E"], track=["0 = N 8 0", "3 = S 2", "4 = E two words", "12 = N 7", "0 = N 1"])
GARBAGE = dict(
    sync=["", "garbage", "0 = N 0 0", '0 = E "x"', "0 = B", "0 = TS", "5 = B x", " = B 1", "5 = A", "0 = BB 1"] + BRACES + LENIENT["sync"] + PREFIXED["sync"] + LOWERCASE["sync"] + SONGKIND + SAMEHEAD["sync"],
    events=["", "garbage", "0 = B 120000", "0 = E solo", "0 = N 0 0", '3 = E "unterminated', "3 = E", '= E "x"'] + BRACES + LENIENT["events"] + PREFIXED["events"] + LOWERCASE["events"] + SONGKIND + SAMEHEAD["events"],
    track=["", "garbage", "2 = S 64 5", "2 = N 8 0", "2 = E two words", "0 = B 120000", '0 = E "section a"', "2 = S 2", "2 = N 0", "2 = N 0 0 0", "2 = S 1 5"] + BRACES + LENIENT["track"] + PREFIXED["track"] + LOWERCASE["track"] + SONGKIND + SAMEHEAD["track"],
)

SCRIPT = """{observe_src}

base = {base!r}
text = {text!r}
k = {k}
import logging
class H(logging.Handler):
    n = 0
    def emit(self, r):
        try:
            r.getMessage()   # a record that cannot be rendered is not a report
        except Exception:
            return
        H.n += 1
from chartparse.chart import Chart
logging.getLogger().handlers[:] = [H(level=logging.WARNING)]
def run(t):
    H.n = 0
    try:
        o = ["ok", observe(Chart.from_file(io.StringIO(t)))]
    except Exception as e:
        o = ["err", type(e).__name__]
    return o, H.n
(o0, w0), (o1, w1) = run(base), run(text)
print("base:", o0[0], w0, "warning records; with", k, "unparsable lines:", o1[0] if o1[0] == "ok" else o1, w1, "warning records")
sys.exit(0 if (o0 == o1 and w1 - w0 == k) else 1)
"""


def setup():
    impl.load()


def text_with(sec, lines):
    kw = dict(BASE)
    kw[sec] = lines
    return mk(res=4, sync=kw["sync"], events=kw["events"], tracks={"ExpertSingle": kw["track"]})


def run(t):
    impl.LOG.n = 0
    try:
        o = ["ok", impl.observe(impl.parse(t))]
    except Exception as e:  # noqa: BLE001
        o = ["err", type(e).__name__]
    return o, impl.LOG.n


def plan(tier, seed):
    shards = []
    mult = 2 if tier == "quick" else 3
    for sec in ("sync", "events", "track"):
        for gi in range(len(GARBAGE[sec]) + 1):
            shards.append(("ins", sec, gi, mult))
    shards.append(("song", mult))
    shards += [("runs", sec) for sec in ("sync", "events", "track")] + [("dups", sec) for sec in ("sync", "events", "track")]
    shards.append(("pairs", mult))
    shards.append(("disjoint",))
    shards.append(("long",))
    shards.append(("conservation",))
    return dict(shards=shards, bounds=dict(base_lines=5, insertion_points=6, multiplicity=mult, garbage={k: v for k, v in GARBAGE.items()}), budget_s=600)


# [Song]: lines no field recogniser accepts are skipped (silently on the pinned tree: whether they are REPORTED is
# left open, DESIGN.md 3.11) - but wherever they stand they never change what is parsed. Among them look-alikes
# that carry a field's name but not a value of its kind.
SONG_BASE = ["Resolution = 4", "Offset = 7", 'Name = "n"', "Difficulty = 3", "Player2 = bass", 'Year = ", 2001"']
SONG_GARBAGE = ["", "garbage", "0 = B 120000", "0 = N 0 0", "Offset = 1.5", "Offset = x", "Offset =", "Offset = 7 8", "Offset = -3", "Resolution = 4.0", "Resolution = x", "Difficulty = hard", "Difficulty = 0x3", "offset = 9", "XOffset = 9", "Offset: 9", "Offset=9", "Offset  = 9", "Name = ", "{", "}", "[Song]", "Unknown = 5", 'Unknown = "x"']


def _song(ctx, mult):
    def text_of(song):
        return mk(song=song, sync=BASE["sync"], events=BASE["events"], tracks={"ExpertSingle": BASE["track"]})

    base_text = text_of(SONG_BASE)
    o0, _ = run(base_text)
    for g in SONG_GARBAGE:
        for pos in range(len(SONG_BASE) + 1):
            for k in range(1, mult + 1):
                ctx.node()
                song = SONG_BASE[:pos] + [g] * k + SONG_BASE[pos:]
                text = text_of(song)
                o1, _ = run(text)
                ctx.case(text, sample=lambda: dict(song_body=song))
                ctx.evaluations += 1
                ctx.hist["song_insertions"] += 1
                if o1 != o0:
                    from ..refmodel import diff

                    why = diff(o1[1], o0[1]) if o1[0] == o0[0] == "ok" else "outcome %r vs base %r" % (o1[:2] if o1[0] == "err" else "ok", o0[:2] if o0[0] == "err" else "ok")
                    ctx.violation("song-changed", dict(base=base_text, text=text, k=0, song=True), "[Song]: %d line(s) %r that no field recogniser accepts, inserted at position %d, change what is parsed: %s" % (k, g, pos, why), script=SCRIPT.format(observe_src=impl.OBSERVE_SRC, base=base_text, text=text, k=0).replace("and w1 - w0 == k", ""))


def check(ctx, sec, lines, k, base_text, o0, w0, what):
    text = text_with(sec, lines) if sec else lines
    o1, w1 = run(text)
    ctx.case(text, nontrivial=k > 0, sample=lambda: dict(section=sec, body=lines if sec else None, inserted=k))
    ctx.evaluations += 2
    ctx.hist["inserted_%d" % min(k, 9)] += 1
    if o1 != o0 or w1 - w0 != k:
        if o1 != o0:
            from ..refmodel import diff

            why = "parsed events changed: " + (diff(o1[1], o0[1]) if o1[0] == o0[0] == "ok" else "outcome %r vs base %r" % (o1[:2] if o1[0] == "err" else "ok", o0[:2] if o0[0] == "err" else "ok"))
            key = "events-changed"
        else:
            why = "warning records grew by %d, expected %d" % (w1 - w0, k)
            key = "reported-once"
        ctx.violation(key, dict(base=base_text, text=text, k=k), "%s: %s" % (what, why), script=SCRIPT.format(observe_src=impl.OBSERVE_SRC, base=base_text, text=text, k=k))


CONS_DROP = ("hopo", "sp", "sustain", "longest", "end_tick", "us", "bpm", "upper", "lower", "value", "lanes", "metadata")
CANON = dict(sync=dict(B="0 = B 1", TS="0 = TS 1", A="0 = A 1"), track=dict(N="0 = N 0 0", S="0 = S 2 0", E="0 = E x"))


def _disjoint(ctx):
    """E3: no string (of any length) is claimed by two recognisers of the sync / instrument section."""
    for sec in ("sync", "track"):
        try:
            # only the recognisers of this section's own line kinds (each claims its canonical line); whatever else
            # the implementation happens to match body lines against is not a "kind" of the statement
            pats = [p for p in A.capture_section(sec) if any(A.applies(p, c) for c in CANON[sec].values())]
            if len(pats) > 8:
                raise A.Unsupported("%d recognisers claim canonical %s lines" % (len(pats), sec))
            nfas = [A.from_compiled(p) for p in pats]
        except A.Unsupported as e:
            ctx.hist["E3_unavailable(%s)" % e] += 1
            continue
        total = 0
        for (i, p), (j, q) in __import__("itertools").combinations(list(enumerate(pats)), 2):
            g = A.explore([nfas[i], nfas[j]])
            ctx.nodes += len(g.states)
            ctx.edges += g.transitions
            ctx.evaluations += 1
            ctx.hist["disjointness_products"] += 1
            for nfa, pat in ((nfas[i], p), (nfas[j], q)):
                total += A.conform_fast(pat, A.DFA(nfa), A.short_strings(g.reps, 5, cap=3 * 10**5))
            both = [g.wit[k] for k, acc in enumerate(g.acc) if all(acc)]
            if both:
                w = both[0]
                # replay on the real line parsers: which public classes return a datum for w?
                claim = []
                for kind, cls in linelang.kind_classes(sec):
                    try:
                        cls.ParsedData.from_chart_line(w)
                        claim.append(kind)
                    except impl.P.RegexNotMatchError:
                        pass
                    except Exception:  # noqa: BLE001
                        claim.append(kind + "(raises)")
                ctx.executions += 1
                if len(claim) >= 2 or not linelang.check_api():
                    ctx.violation("kinds-overlap", dict(kind="overlap", section=sec, line=w), "%s section: line %r is claimed by the recognisers %r and %r (real line parsers: %r): the outcome depends on the trial order" % (sec, w, p.pattern, q.pattern, claim), script="line = %r\nfrom chartparse.exceptions import RegexNotMatchError\nfrom chartparse.instrument import NoteEvent, StarPowerEvent, TrackEvent\nfrom chartparse.sync import BPMEvent, TimeSignatureEvent, AnchorEvent\nn = 0\nfor cls in (%s):\n    try:\n        cls.ParsedData.from_chart_line(line); n += 1; print('claimed by', cls.__name__)\n    except RegexNotMatchError:\n        pass\n    except Exception as e:\n        n += 1; print('claimed by', cls.__name__, 'then', type(e).__name__)\nsys.exit(1 if n >= 2 else 0)\n" % (w, "BPMEvent, TimeSignatureEvent, AnchorEvent" if sec == "sync" else "NoteEvent, StarPowerEvent, TrackEvent"))
        ctx.extra["translator_vs_regex_engine_strings_" + sec] = total


def _conservation(ctx):
    """Every base line contributes exactly one datum to exactly one kind: the base parse equals the
    reference model (ticks / values / lanes only), and so - transitively - does every insertion case."""
    base_text = text_with("sync", BASE["sync"])
    res = refmodel.model(base_text)
    ctx.case(("conservation", base_text), sample=dict(base=BASE))
    ctx.evaluations += 1
    e1.check_model(ctx, "claimed-once", base_text, res, msg="base chart: every line must contribute exactly one datum to exactly one kind", drop=CONS_DROP)
    # each single line alone in its section, too (a line claimed by two kinds shows up as an extra event)
    for sec in ("events", "track"):
        for ln in BASE[sec]:
            text = mk(res=4, sync=BASE["sync"], events=[ln] if sec == "events" else [], tracks={"ExpertSingle": [ln] if sec == "track" else []})
            ctx.case(("conservation", text))
            ctx.evaluations += 1
            e1.check_model(ctx, "claimed-once", text, refmodel.model(text), msg="single line %r in the %s section" % (ln, sec), drop=CONS_DROP)


def _long(ctx):
    """Long sections (thresholds on the number of lines): garbage at the beginning, in the middle, at the end."""
    sync = ["0 = TS 4", "0 = B 120000"] + ["%d = B %d" % (10 * k, 60000 + k) for k in range(1, 300)] + ["%d = TS 3" % (7 * k) for k in range(1, 300)]
    events = [('%d = E "lyric w%d"', '%d = E "section s %d"', '%d = E "free %d"')[i % 3] % (2 * i, i) for i in range(1200)]
    track = []
    for i in range(1500):
        track += ["%d = N %d %d" % (3 * i, i % 5, i % 4)] + (["%d = N %d 0" % (3 * i, (i + 2) % 5)] if i % 3 == 0 else []) + (["%d = S 2 4" % (3 * i)] if i % 40 == 0 else []) + (["%d = E e%d" % (3 * i, i)] if i % 55 == 0 else [])
    base = dict(sync=sync, events=events, track=track)
    base_text = mk(res=4, sync=sync, events=events, tracks={"ExpertSingle": track})
    o0, w0 = run(base_text)
    for sec in ("sync", "events", "track"):
        lines = base[sec]
        for g in GARBAGE[sec][:4] + BRACES[len(INDENTED) : len(INDENTED) + 3] + INDENTED[:1]:
            for pos in (0, 1, len(lines) // 2, len(lines) - 1, len(lines)):
                new = lines[:pos] + [g, g] + lines[pos:]
                kw = dict(base)
                kw[sec] = new
                text = mk(res=4, sync=kw["sync"], events=kw["events"], tracks={"ExpertSingle": kw["track"]})
                check(ctx, None, text, 2, base_text, o0, w0, "long %s section (%d lines), %r twice at position %d" % (sec, len(lines), g, pos))


def run_shard(shard, ctx):
    if shard[0] == "long":
        return _long(ctx)
    if shard[0] == "disjoint":
        return _disjoint(ctx)
    if shard[0] == "conservation":
        return _conservation(ctx)
    if shard[0] == "song":
        return _song(ctx, shard[1])
    if shard[0] == "runs":
        # multiplicity as a SCALE: uninterrupted runs of 47..300 unparsable lines (every one is reported), also two
        # runs separated by one valid line
        sec = shard[1]
        base = BASE[sec]
        base_text = text_with(sec, base)
        o0, w0 = run(base_text)
        for g in GARBAGE[sec][1:4] + BRACES[len(INDENTED) : len(INDENTED) + 2] + INDENTED[:1] + LENIENT[sec][:1]:
            for n in (47, 48, 49, 50, 64, 65, 100, 128, 129, 257, 300):
                for pos in (0, 2, len(base)):
                    ctx.node()
                    check(ctx, sec, base[:pos] + [g] * n + base[pos:], n, base_text, o0, w0, "%s section, a run of %d lines %r at position %d" % (sec, n, g, pos))
                check(ctx, sec, base[:1] + [g] * n + base[1:3] + [g] * (n + 1) + base[3:], 2 * n + 1, base_text, o0, w0, "%s section, runs of %d and %d lines %r" % (sec, n, n + 1, g))
        return
    if shard[0] == "dups":
        # sections whose recognised lines are written TWICE, verbatim and adjacent: each copy is a line of its own
        # (one datum each), and unparsable lines between, before or behind the copies change nothing
        sec = shard[1]
        base = DUPS[sec]
        base_text = text_with(sec, base)
        o0, w0 = run(base_text)
        ctx.evaluations += 1
        res = refmodel.model(base_text)
        e1.check_model(ctx, "conservation", base_text, res, msg="%s section with every line written twice: each copy contributes its own datum" % sec, drop=("hopo", "sp"))
        for g in GARBAGE[sec][:4] + BRACES[len(INDENTED) : len(INDENTED) + 1] + INDENTED[:2]:
            ctx.node()
            for counts in itertools.product(range(2), repeat=len(base) + 1):
                lines, k = [], 0
                for pos in range(len(base) + 1):
                    if counts[pos]:
                        lines.append(g)
                        k += 1
                    if pos < len(base):
                        lines.append(base[pos])
                check(ctx, sec, lines, k, base_text, o0, w0, "%s section with doubled lines, %r at insertion pattern %r" % (sec, g, list(counts)))
        return
    base_text = text_with("sync", BASE["sync"])
    o0, w0 = run(base_text)
    if shard[0] == "ins":
        _, sec, gi, mult = shard
        G = GARBAGE[sec]
        base = BASE[sec]
        ctx.node()
        for counts in itertools.product(range(mult + 1), repeat=len(base) + 1):
            if ctx.out_of_time():
                return
            lines, k = [], 0
            for pos in range(len(base) + 1):
                for _ in range(counts[pos]):
                    lines.append(G[gi] if gi < len(G) else G[(k + pos) % len(G)])
                    k += 1
                if pos < len(base):
                    lines.append(base[pos])
            g = repr(G[gi]) if gi < len(G) else "mixed garbage"
            check(ctx, sec, lines, k, base_text, o0, w0, "%s section, %s at insertion counts %r" % (sec, g, list(counts)))
    else:
        # garbage in two or three sections at once: locality across sections
        ctx.node()
        for gs in itertools.product(GARBAGE["sync"][:4], GARBAGE["events"][:4], GARBAGE["track"][:5]):
            for pos in range(0, 6, 2):
                kw = dict(BASE)
                kw["sync"] = BASE["sync"][:pos] + [gs[0]] + BASE["sync"][pos:]
                kw["events"] = BASE["events"][: 5 - pos] + [gs[1]] + BASE["events"][5 - pos :]
                kw["track"] = BASE["track"][:pos] + [gs[2], gs[2]] + BASE["track"][pos:]
                text = mk(res=4, sync=kw["sync"], events=kw["events"], tracks={"ExpertSingle": kw["track"]})
                check(ctx, None, text, 4, base_text, o0, w0, "garbage %r in all three sections at position %d" % (gs, pos))


def replay(case):
    if case.get("kind") == "overlap":
        n = 0
        for kind, cls in linelang.kind_classes(case["section"]):
            try:
                cls.ParsedData.from_chart_line(case["line"])
                n += 1
            except impl.P.RegexNotMatchError:
                pass
            except Exception:  # noqa: BLE001
                n += 1
        return [dict(key="kinds-overlap", msg="still claimed by %d kinds" % n, case=case)] if n >= 2 else []
    if "acceptable" in case:
        return e1.replay_model_case(case, "claimed-once")
    o0, w0 = run(case["base"])
    o1, w1 = run(case["text"])
    if case.get("song"):
        return [] if o0 == o1 else [dict(key="song-changed", msg="still fails", case=case)]
    if o0 == o1 and w1 - w0 == case["k"]:
        return []
    return [dict(key="events-changed" if o0 != o1 else "reported-once", msg="still fails", case=case)]
