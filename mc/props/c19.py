"""C19 - a parsed chart is an immutable value under all read-only use (engine E2).

Explicit-state exploration of operation histories on live charts. A state is the history of
read-only operations applied to a freshly parsed chart (live objects do not copy, so every history
is replayed on a fresh parse). All histories up to the depth are executed un-merged, because the
package keeps private per-object caches; the canonical fingerprint (public observation + equality
with an untouched twin, both ways) is evaluated after every operation and must equal the initial
one. The number of distinct fingerprints reached is reported (1 per chart when the property holds).
"""

from __future__ import annotations

import hashlib
import itertools
import json

from .. import impl
from ..chartgen import mk

ID = "C19"
LEVEL = "model_checking"
ENGINE = "E2 explicit-state exploration of operation histories on live objects"
RULE = (
    "6 charts (one with body lines out of tick order) x every sequence of <= D read-only operations out of the operation alphabet (subscripting by all 10 instruments, "
    "map reads, notes_per_second in all forms on present/absent/note-less tracks incl. failing ones, tick-to-time queries valid "
    "and invalid, str/repr/==/hash, derived attributes, copies, attribute assignment to every public / new / private name of every event and track object, which must raise); after every operation the public "
    "observation and twin equality are compared with the initial ones; distinct = distinct (chart, sequence); non-trivial = all"
)
ASSUMPTIONS = [
    "read-only operations may raise; only change is a violation (DESIGN.md 3.12)",
    "attribute assignment on events and tracks must raise",
]

PRELUDE = '''
import copy
from datetime import timedelta
from chartparse.chart import Chart
from chartparse.instrument import Instrument, Difficulty
G, X = Instrument.GUITAR, Difficulty.EXPERT
def tracks(c):
    return [t for dd in list(c.instrument_tracks.values()) for t in list(dd.values())]
def events(c):
    s, g = c.sync_track, c.global_events_track
    out = list(s.bpm_events) + list(s.time_signature_events) + list(s.anchor_events)
    out += list(g.text_events) + list(g.section_events) + list(g.lyric_events)
    for t in tracks(c):
        out += list(t.note_events) + list(t.star_power_events) + list(t.track_events)
    return out
def event_lists(c):
    s, g = c.sync_track, c.global_events_track
    out = [s.time_signature_events, s.anchor_events, g.text_events, g.section_events, g.lyric_events]
    for t in tracks(c):
        out += [t.note_events, t.star_power_events, t.track_events]
    return out
def containers(c):
    return tracks(c) + [c.sync_track, c.global_events_track]
def public_names(o):
    return [n for n in dir(o) if not n.startswith("_")]
def try_(f, x):
    try:
        return f(x)
    except Exception as e:
        return type(e).__name__
def must_raise(f):
    try:
        f()
    except Exception:
        return "raised"
    d = f.__defaults__ or ()
    return "ACCEPTED by " + " ".join([type(d[0]).__name__] + [repr(x) for x in d[1:]] if d else ["?"])
'''

INSTRUMENTS = "GUITAR GUITAR_COOP BASS RHYTHM KEYS DRUMS GHL_GUITAR GHL_BASS GHL_COOP GHL_RHYTHM".split()
OPS = {}
for _i in INSTRUMENTS:
    OPS["getitem_" + _i] = "c[Instrument.%s]" % _i
OPS.update(
    {
        "map_get_absent": "c.instrument_tracks.get(Instrument.GHL_COOP)",
        "map_in_absent": "Instrument.GHL_BASS in c.instrument_tracks",
        "map_subscript_absent": "c.instrument_tracks[Instrument.RHYTHM]",
        "map_keys": "sorted(i.name for i in c.instrument_tracks)",
        "getitem_then_difficulty": "c[Instrument.KEYS][Difficulty.EASY]",
        "nps_default": "c.notes_per_second(G, X)",
        "nps_tick_start": "c.notes_per_second(G, X, 0)",
        "nps_tick_both": "c.notes_per_second(G, X, 0, 40)",
        "nps_tick_zero_len": "c.notes_per_second(G, X, 5, 5)",
        "nps_tick_reversed": "c.notes_per_second(G, X, 40, 0)",
        "nps_ts_start": "c.notes_per_second(G, X, timedelta(0))",
        "nps_ts_both": "c.notes_per_second(G, X, timedelta(0), timedelta(seconds=1))",
        "nps_ts_reversed": "c.notes_per_second(G, X, timedelta(seconds=1), timedelta(0))",
        "nps_absent_instrument": "c.notes_per_second(Instrument.BASS, X)",
        "nps_absent_instrument_ticks": "c.notes_per_second(Instrument.GHL_GUITAR, Difficulty.HARD, 0, 10)",
        "nps_absent_difficulty": "c.notes_per_second(G, Difficulty.EASY, 0, 10)",
        "nps_noteless": "c.notes_per_second(Instrument.DRUMS, Difficulty.HARD)",
        "nps_negative_tick": "c.notes_per_second(G, X, -1, 10)",
        "nps_ts_negative_start": "c.notes_per_second(G, X, timedelta(seconds=-1), timedelta(seconds=1))",
        "nps_ts_negative_both": "c.notes_per_second(G, X, timedelta(seconds=-2), timedelta(seconds=-1))",
        "nps_ts_negative_reversed": "c.notes_per_second(G, X, timedelta(seconds=-1), timedelta(seconds=-2))",
        "nps_ts_negative_start_only": "c.notes_per_second(G, X, timedelta(microseconds=-1))",
        "nps_ts_huge": "c.notes_per_second(G, X, timedelta(0), timedelta(days=400))",
        "nps_tick_huge": "c.notes_per_second(G, X, 0, 2**40)",
        "nps_end_only_tick": "c.notes_per_second(G, X, None, 40)",
        "nps_end_only_ts": "c.notes_per_second(G, X, None, timedelta(seconds=1))",
        "nps_keywords": "c.notes_per_second(instrument=G, difficulty=X, start=0, end=40)",
        "nps_mixed_forms": "c.notes_per_second(G, X, 0, timedelta(seconds=1))",
        "nps_mixed_forms_2": "c.notes_per_second(G, X, timedelta(0), 40)",
        "nps_wrong_types": "c.notes_per_second('GUITAR', 'EXPERT', 0.5, 'x')",
        "tat_valid": "c.sync_track.bpm_events.timestamp_at_tick(7)",
        "tat_far": "c.sync_track.bpm_events.timestamp_at_tick(100000)",
        "tat_negative": "c.sync_track.bpm_events.timestamp_at_tick(-1)",
        "tat_hint_too_large": "c.sync_track.bpm_events.timestamp_at_tick(7, start_iteration_index=99)",
        "tat_hint_beyond": "c.sync_track.bpm_events.timestamp_at_tick(0, start_iteration_index=1)",
        "tat_no_optimize": "c.sync_track.bpm_events.timestamp_at_tick_no_optimize_return(12)",
        "bpm_seq_reads": "(len(c.sync_track.bpm_events), c.sync_track.bpm_events[0], c.sync_track.bpm_events[0:2], list(c.sync_track.bpm_events))",
        # the whole Sequence / Mapping protocol of the chart's containers (mixin methods included)
        "bpm_seq_reversed": "list(reversed(c.sync_track.bpm_events))",
        "bpm_seq_reversed_first": "next(reversed(c.sync_track.bpm_events))",
        "bpm_seq_search": "(c.sync_track.bpm_events[-1] in c.sync_track.bpm_events, c.sync_track.bpm_events.index(c.sync_track.bpm_events[-1]), c.sync_track.bpm_events.count(c.sync_track.bpm_events[0]), 5 in c.sync_track.bpm_events)",
        "bpm_seq_slices": "(c.sync_track.bpm_events[::-1], c.sync_track.bpm_events[-1], c.sync_track.bpm_events[1:], sorted(c.sync_track.bpm_events, key=lambda e: -e.tick), max(c.sync_track.bpm_events, key=lambda e: e.bpm))",
        "bpm_seq_out_of_range": "c.sync_track.bpm_events[99]",
        "list_protocol_reads": "[(list(reversed(l)), l[::-1], l[:1], sorted(l, key=lambda e: -e.tick), len(l), (l[0] in l) if l else None) for l in event_lists(c)]",
        "map_protocol_reads": "(len(c.instrument_tracks), list(c.instrument_tracks.items()), list(c.instrument_tracks.values()), dict(c.instrument_tracks), [dict(dd) for dd in c.instrument_tracks.values()], [list(reversed(dd)) for dd in c.instrument_tracks.values()])",
        "str_chart": "str(c)",
        "repr_chart": "repr(c)",
        "str_parts": "[str(x) for x in (c.metadata, c.sync_track, c.global_events_track)] + [str(t) for t in tracks(c)]",
        "repr_parts": "[repr(x) for x in (c.metadata, c.sync_track, c.global_events_track)] + [repr(t) for t in tracks(c)]",
        "str_events": "[str(e) for e in events(c)]",
        "repr_events": "[repr(e) for e in events(c)]",
        "eq_self": "(c == c, c != c, c == 3, c.sync_track == c.sync_track, [t == t for t in tracks(c)])",
        "eq_events": "[a == b for a in events(c)[:6] for b in events(c)[:6]]",
        # comparison ACROSS types: the chart, its parts and its events compared with one another in both operand
        # orders (a dataclass __eq__ answers NotImplemented for a foreign type, so the other side's __eq__ runs too)
        "eq_cross_chart": "[(c == x, x == c, c != x, x != c) for x in [c.metadata, c.sync_track, c.sync_track.bpm_events, c.global_events_track, c.instrument_tracks] + tracks(c) + events(c) + event_lists(c)]",
        "in_cross": "[(c in list(l), [x in [c] for x in list(l)[:3]]) for l in event_lists(c)] + [c.metadata in [c], c in [c.metadata], c in tracks(c), c.sync_track in [c]]",
        "eq_cross_parts": "(lambda parts: [a == b for a in parts for b in parts])([c.metadata, c.sync_track, c.global_events_track, c.sync_track.bpm_events] + tracks(c) + events(c)[:8])",
        # `x in chart` for instruments, difficulties, (instrument, difficulty) pairs, tracks, events (an error is an answer)
        "in_chart": "[try_(lambda y: y in c, x) for x in list(Instrument) + list(Difficulty) + [(i, d) for i in Instrument for d in Difficulty] + [(d, i) for i in list(Instrument)[:2] for d in Difficulty] + tracks(c) + events(c)[:5] + [0, None, 'GUITAR', ()]]",
        "in_maps": "[try_(lambda y: (y in c.instrument_tracks, y in dict(c.instrument_tracks)), x) for x in list(Instrument) + [(i, d) for i in Instrument for d in Difficulty][:12]] + [try_(lambda d: [d in v for v in c.instrument_tracks.values()], d) for d in Difficulty]",
        "hash_events": "[hash(e) for e in events(c)]",
        # hashing is asked of EVERYTHING reachable (an unhashable object answers TypeError - that is an answer too),
        # and objects are used as set members / dict keys
        "hash_all": "[try_(hash, x) for x in [c, c.metadata, c.sync_track, c.sync_track.bpm_events, c.global_events_track, c.instrument_tracks] + tracks(c) + event_lists(c) + events(c)]",
        "set_members": "[try_(lambda y: len({y}) + len({y: 1}), x) for x in [c, c.metadata, c.sync_track, c.sync_track.bpm_events, c.global_events_track] + tracks(c) + events(c)[:12]]",
        "derived_note": "[(e.longest_sustain, e.end_tick) for t in tracks(c) for e in t.note_events]",
        "derived_track": "[(t.header_tag, t.last_note_end_timestamp) for t in tracks(c)]",
        "derived_phrase": "[p.end_tick for t in tracks(c) for p in t.star_power_events]",
        "phrase_predicates": "[(p.tick_is_during_event(3), p.tick_is_after_event(3)) for t in tracks(c) for p in t.star_power_events]",
        "copy_shallow": "copy.copy(c)",
        "copy_deep": "copy.deepcopy(c)",
        "sorted_notes": "[sorted(t.note_events, key=lambda e: e.tick) for t in tracks(c)]",
    }
)
# operations that MUST raise (value "ACCEPTED" is a violation by itself)
MUST_RAISE = {
    "assign_event_tick": "[must_raise(lambda e=e: setattr(e, 'tick', 99)) for e in events(c)]",
    "assign_event_timestamp": "[must_raise(lambda e=e: setattr(e, 'timestamp', timedelta(0))) for e in events(c)]",
    "assign_note_fields": "[must_raise(lambda e=e, a=a: setattr(e, a, None)) for t in tracks(c) for e in t.note_events for a in ('note', 'sustain', 'hopo_state', 'star_power_data', 'end_timestamp')]",
    "assign_track_fields": "[must_raise(lambda t=t, a=a: setattr(t, a, [])) for t in tracks(c) for a in ('note_events', 'star_power_events', 'track_events', 'instrument', 'difficulty')]",
    "assign_sync_fields": "[must_raise(lambda a=a: setattr(c.sync_track, a, [])) for a in ('bpm_events', 'time_signature_events', 'anchor_events')] + [must_raise(lambda: setattr(c.sync_track.bpm_events, 'resolution', 1))]",
    # ANY attribute: a name that is not a declared field (a new one, a derived attribute, a method) is assignment too
    "assign_event_new_name": "[must_raise(lambda e=e: setattr(e, 'verif_new_attribute', 1)) for e in events(c)]",
    "assign_track_new_name": "[must_raise(lambda t=t: setattr(t, 'verif_new_attribute', 1)) for t in containers(c)]",
    "assign_event_every_public_name": "[must_raise(lambda e=e, n=n: setattr(e, n, 5)) for e in events(c) for n in public_names(e)]",
    "assign_track_every_public_name": "[must_raise(lambda t=t, n=n: setattr(t, n, 5)) for t in containers(c) for n in public_names(t)]",
    "assign_event_private_name": "[must_raise(lambda e=e: setattr(e, '_proximal_bpm_event_index', 0)) for e in events(c)] + [must_raise(lambda e=e: setattr(e, '_verif_private', 0)) for e in events(c)]",
    "delete_event_attr": "[must_raise(lambda e=e: delattr(e, 'tick')) for e in events(c)]",
}
OPS.update(MUST_RAISE)
OPNAMES = list(OPS)

SYNC = ["0 = TS 4", "0 = B 120000", "10 = B 60000", "20 = TS 3 3", "5 = A 100"]
EVENTS = ['0 = E "section a"', '4 = E "lyric b"', '11 = E "t"']
CHARTS = {
    "no-tracks": mk(res=4, sync=SYNC, events=EVENTS),
    "one-track": mk(res=4, sync=SYNC, events=EVENTS, tracks={"ExpertSingle": ["0 = N 0 0", "5 = N 1 3", "5 = N 2 7", "12 = N 7 0", "30 = N 3 2"]}),
    "several": mk(res=4, sync=SYNC, events=EVENTS, tracks=[("ExpertSingle", ["0 = N 0 0", "9 = N 1 4"]), ("EasySingle", ["2 = N 2 0"]), ("ExpertDoubleBass", ["3 = N 3 1", "3 = N 4 1"]), ("HardKeyboard", ["8 = E solo"]), ("HardSingle", ["1 = N 1 0"]), ("MediumKeyboard", []), ("EasyDoubleBass", ["4 = N 0 0"])]),
    "noteless": mk(res=4, sync=SYNC, events=EVENTS, tracks=[("HardDrums", ["3 = S 2 4", "5 = E solo"]), ("ExpertSingle", ["1 = N 0 0", "2 = N 1 0"])]),
    # accepted although its lines are not in tick order (every out-of-order tick stays in the current tempo region)
    "unsorted": mk(res=4, sync=["0 = TS 4", "0 = B 120000", "10 = B 60000", "25 = TS 3", "12 = TS 5"], events=['11 = E "section b"', '4 = E "lyric x"', '30 = E "lyric z"', '12 = E "lyric y"', '20 = E "t"', '11 = E "u"'], tracks=[("ExpertSingle", ["0 = N 0 0", "30 = N 1 2", "12 = N 2 0", "20 = N 3 1", "20 = S 2 5", "11 = S 2 1", "28 = E b", "13 = E a"]), ("HardDrums", ["14 = N 1 0", "11 = N 2 0"])]),
    # scale: every container is long (thresholds such as ">= 512 notes" are invisible on small charts); depth 1 only
    "big": mk(
        res=4,
        sync=["0 = TS 4"] + ["%d = B %d" % (30 * i, 60000 + 997 * i) for i in range(70)] + ["%d = TS %d" % (16 * i, 2 + i % 5) for i in range(1, 40)],
        events=['%d = E "lyric w%d"' % (3 * i, i) for i in range(600)] + ['%d = E "section s%d"' % (40 * i, i) for i in range(40)],
        tracks=[
            ("ExpertSingle", [ln for i in range(600) for ln in (["%d = N %d %d" % (2 * i, i % 5, i % 3)] + (["%d = S 2 9" % (2 * i)] if i % 15 == 0 else []))]),
            ("HardDrums", ["%d = N %d 0" % (3 * i + 1, (i * 2) % 5) for i in range(530)] + ["%d = E e%d" % (7 * i, i) for i in range(100)]),
        ],
    ),
    "star-power": mk(res=4, sync=SYNC, events=EVENTS, tracks={"ExpertSingle": ["0 = S 2 4", "0 = N 0 0", "3 = N 1 2", "4 = N 2 0", "8 = S 2 0", "8 = N 3 0", "9 = S 2 9", "10 = N 0 0", "10 = N 6 0"]}),
}

# how a chart of the corpus is PARSED (a chart obtained through any entry mode is a parsed chart): selection
# None unless listed here
WANT = {
    "several/empty-list": [],
    "several/empty-tuple": (),
    "several/one-selected": [("GUITAR", "EXPERT")],
    "several/absent-selected": [("GHL_COOP", "MEDIUM")],
    "no-tracks/empty-list": [],
}
for _k in WANT:
    CHARTS[_k] = CHARTS[_k.split("/")[0]]


def parse_chart(cname):
    w = WANT.get(cname)
    if w is None:
        return impl.parse(CHARTS[cname])
    sel = [(impl.P.Instrument[i], impl.P.Difficulty[d]) for i, d in w]
    return impl.parse(CHARTS[cname], want_tracks=sel if isinstance(w, list) else tuple(sel))


SCRIPT = """{observe_src}
{prelude}
text = {text!r}
ops = {ops!r}   # (name, expression) applied in this order to chart c
want = {want!r}   # selection the chart was parsed with (None: no selection)
def _parse():
    if want is None:
        return Chart.from_file(io.StringIO(text))
    sel = [(Instrument[i], Difficulty[d]) for i, d in want]
    return Chart.from_file(io.StringIO(text), want_tracks=sel if isinstance(want, list) else tuple(sel))
c = _parse(); twin = _parse()
def state():
    try:
        s_, r_ = str(c), repr(c)   # renderings first, then the reads of derived attributes
        st_ = [str(t) for dd in c.instrument_tracks.values() for t in dd.values()]
        o = observe(c)
        o["track_map_order"] = [[i.name, [d.name for d in dd]] for i, dd in c.instrument_tracks.items()]
        o["str"], o["repr"], o["str_tracks"] = s_, r_, st_
    except Exception as e:   # a chart that can no longer be observed has changed
        o = dict(unobservable="%s: %s" % (type(e).__name__, e))
    return (o, c == twin, twin == c)
s0 = state()
bad = 0
for name, expr in ops:
    try:
        r = eval(expr)
    except Exception as e:
        r = "raises " + type(e).__name__
    acc = sorted(set(x for x in r if str(x).startswith("ACCEPTED"))) if isinstance(r, list) else []
    if acc:
        print("VIOLATED:", name, ":", "; ".join(acc)); bad += 1
    s = state()
    if s != s0:
        print("VIOLATED: after", name, ":", expr)
        print("   twin equality (c==twin, twin==c):", s[1:], "was", s0[1:], "; observation changed:", s[0] != s0[0])
        bad += 1; break
sys.exit(1 if bad else 0)
"""

NS = None


def setup():
    global NS
    impl.load()
    NS = {}
    exec(PRELUDE, NS)  # noqa: S102
    NS["_code"] = {k: compile(v, "<op %s>" % k, "eval") for k, v in OPS.items()}


def plan(tier, seed):
    D = 2 if tier == "quick" else 3
    shards = []
    for cname in CHARTS:
        if cname == "big":
            for lo in range(0, len(OPNAMES), 4):
                shards.append((cname, 1, lo, min(len(OPNAMES), lo + 4)))
        elif D == 2:
            for lo in range(0, len(OPNAMES), 8):
                shards.append((cname, D, lo, min(len(OPNAMES), lo + 8)))
        else:
            for lo in range(len(OPNAMES)):
                shards.append((cname, D, lo, lo + 1))
    return dict(shards=shards, bounds=dict(depth=D, operations=len(OPNAMES), charts=list(CHARTS)), budget_s=1500 if tier == "thorough" else 300)


def fingerprint(c, twin):
    try:
        # the renderings are taken FIRST: the observation below reads derived attributes (header_tag ...), and a
        # rendering that depends on what was read before must show up as a change
        s_, r_ = str(c), repr(c)
        st_ = [str(t) for dd in c.instrument_tracks.values() for t in dd.values()]
        o = impl.observe(c)
        # order-sensitive public data: iteration order of the track map and the chart's own rendering
        o["track_map_order"] = [[i.name, [d.name for d in dd]] for i, dd in c.instrument_tracks.items()]
        o["str"] = s_
        o["repr"] = r_
        o["str_tracks"] = st_
    except Exception as e:  # noqa: BLE001 - a chart that can no longer be observed has changed
        o = dict(unobservable="%s: %s" % (type(e).__name__, e), keys=repr(list(c.instrument_tracks))[:300])
    return o, (c == twin), (twin == c)


def apply(c, name):
    NS["c"] = c
    try:
        r = eval(NS["_code"][name], NS)  # noqa: S307
    except Exception as e:  # noqa: BLE001
        r = "raises " + type(e).__name__
    return r


def run_seq(ctx, cname, text, seq, twin, s0, states):
    c = parse_chart(cname)
    for k, name in enumerate(seq):
        r = apply(c, name)
        ctx.edges += 1
        acc = sorted(set(x for x in r if str(x).startswith("ACCEPTED"))) if isinstance(r, list) else []
        if acc:
            _report(ctx, cname, text, seq[: k + 1], "accepts-assignment:" + name, "attribute assignment is accepted (%s): %s" % (name, "; ".join(acc)[:300]))
            return
        s = fingerprint(c, twin)
        ctx.evaluations += 3
        h = hashlib.sha1(json.dumps(s, sort_keys=True, default=str).encode()).hexdigest()
        states.add(h)
        if s != s0:
            what = []
            if s[0] != s0[0]:
                from ..refmodel import diff

                what.append("observation changed (%s)" % diff(s0[0], s[0]))
            if s[1:] != s0[1:]:
                what.append("equality with an identically parsed twin (c==twin, twin==c) became %r" % (s[1:],))
            _report(ctx, cname, text, seq[: k + 1], "mutated-by:" + name, "chart %s after operations %r: %s" % (cname, list(seq[: k + 1]), "; ".join(what)))
            return


def _report(ctx, cname, text, seq, key, msg):
    ops = [[n, OPS[n]] for n in seq]
    ctx.violation(key, dict(chart=cname, ops=list(seq)), msg, script=SCRIPT.format(observe_src=impl.OBSERVE_SRC, prelude=PRELUDE, text=text, ops=ops, want=WANT.get(cname)))


def run_shard(shard, ctx):
    cname, D, lo, hi = shard
    text = CHARTS[cname]
    twin = parse_chart(cname)
    c0 = parse_chart(cname)
    s0 = fingerprint(c0, twin)
    s0b = fingerprint(c0, twin)
    if s0b != s0:
        # the observation itself is a sequence of read-only public reads (fields, derived attributes, renderings)
        from ..refmodel import diff

        ctx.violation("mutated-by:observation", dict(chart=cname, ops=[]), "chart %s: observing it twice (public fields, derived attributes such as header_tag / end_tick, str, repr) gives two different results: %s" % (cname, diff(s0b[0], s0[0]) or "twin equality %r vs %r" % (s0b[1:], s0[1:])), script=SCRIPT.format(observe_src=impl.OBSERVE_SRC, prelude=PRELUDE, text=text, ops=[], want=WANT.get(cname)).replace("s0 = state()", "s0 = state()\nif state() != s0:\n    print('VIOLATED: observing the chart twice gives two different results'); sys.exit(1)"))
        return
    if not (s0[1] and s0[2]):
        ctx.violation("twin-unequal", dict(chart=cname, ops=[]), "two parses of the same text are not equal (chart %s)" % cname, script=SCRIPT.format(observe_src=impl.OBSERVE_SRC, prelude=PRELUDE, text=text, ops=[], want=WANT.get(cname)).replace("s0 = state()", "s0 = state()\nif not (s0[1] and s0[2]):\n    print('VIOLATED: two parses of the same text are not equal'); sys.exit(1)"))
        return
    states = {hashlib.sha1(json.dumps(s0, sort_keys=True, default=str).encode()).hexdigest()}
    for first in OPNAMES[lo:hi]:
        for d in range(0, D):
            for rest in itertools.product(OPNAMES, repeat=d):
                if ctx.out_of_time():
                    return
                seq = (first,) + rest
                ctx.case((cname, seq), sample=lambda: dict(chart=cname, ops=[[n, OPS[n]] for n in seq]))
                run_seq(ctx, cname, text, seq, twin, s0, states)
    # the shared twin must still be pristine
    t2 = parse_chart(cname)
    if impl.observe(twin) != impl.observe(t2) or twin != t2:
        ctx.violation("twin-changed", dict(chart=cname, ops=[]), "operations on one chart changed a different chart object parsed from the same text")
    ctx.extra["distinct_fingerprints_max_per_shard"] = 0
    ctx.hist["fingerprints_%s_%d" % (cname, len(states))] += 1


def replay(case):
    from ..core import Ctx
    import time

    ctx = Ctx(0, time.time() + 600)
    text = CHARTS[case["chart"]]
    twin = parse_chart(case["chart"])
    c_ = parse_chart(case["chart"])
    s0 = fingerprint(c_, twin)
    if fingerprint(c_, twin) != s0:
        return [dict(key="mutated-by:observation", msg="observing the chart twice gives two different results", case=case)]
    if not (s0[1] and s0[2]):
        return [dict(key="twin-unequal", msg="two parses of the same text are not equal", case=case)]
    run_seq(ctx, case["chart"], text, tuple(case["ops"]), twin, s0, set())
    return ctx.violations
