"""C01 - timestamps equal the exact tempo-map time of their tick (engine E1).

State: (resolution, tempo-map prefix). Transition: append a tempo change (gap, thousandths).
Every state is rendered as one chart carrying, at every probe tick, one event of each kind, parsed
by the real code and compared with exact rational time.
"""

from __future__ import annotations

import itertools
from fractions import Fraction

from .. import e1, impl
from ..chartgen import mk, song_envs
from ..refmodel import exact_us

ID = "C01"
LEVEL = "model_checking"
ENGINE = "E1 bounded-exhaustive generation-tree explorer"
RULE = (
    "every tempo map of <= K segments over the BPM and gap alphabets (coverage.bounds) per resolution; one chart per map "
    "with a TS, text, section, lyric, S, E and N event (sustain ending on the next probe tick) at every probe tick "
    "(tempo ticks, +-1, 0, 1, last+{1,191,10^4,10^6}) plus direct queries; distinct = distinct (resolution, map); "
    "non-trivial = map has >= 2 tempo events"
)
ASSUMPTIONS = [
    "tolerance (0.5 us + 2 ns) x (tempo segments traversed = governing tempo index, +1 when the tick lies past that tempo event), DESIGN.md 3.3",
    "every enumerated chart is well-formed; its rejection by the parser is a violation (no timestamp is reported at all)",
    "BPM / resolution / gap values outside the alphabets and maps longer than the bound are not explored",
]

RES = (1, 2, 3, 7, 96, 100, 192, 480, 960)
BPMS = (1, 999, 1000, 1001, 1118, 59999, 120000, 120001, 333333, 20548, 99999999, 10**9)
GAPS = (1, 2, 3, 191, 192, 193, 1000)
SUB_BPMS = (1, 1000, 120000, 10**9)
LONG = (9, 10, 11, 16, 17, 18, 33, 34, 65)  # tempo-map lengths around plausible fast-path thresholds
BPMS3_QUICK = (1, 1000, 1118, 120000, 333333, 10**9)
LIMIT = 10**12  # microseconds: 10^6 s
TOL = Fraction(1, 2) + Fraction(2, 1000)

PROBE_SRC = '''
def probe(c):
    us = lambda td: (td.days * 86400 + td.seconds) * 10**6 + td.microseconds
    out = []
    s, g = c.sync_track, c.global_events_track
    groups = [("B", s.bpm_events), ("TS", s.time_signature_events), ("text", g.text_events),
              ("section", g.section_events), ("lyric", g.lyric_events)]
    for dd in c.instrument_tracks.values():
        for t in dd.values():
            groups += [("S", t.star_power_events), ("E", t.track_events), ("N", t.note_events)]
            out += [["N-end", e.end_tick, us(e.end_timestamp)] for e in t.note_events]
    for k, evs in groups:
        out += [[k, e.tick, us(e.timestamp)] for e in evs]
    return out
'''
probe = None

SCRIPT = """# (a chart that is rejected outright fails this script with the parser's exception)
from fractions import Fraction
text = {text!r}
tempo, resolution, queries = {tempo!r}, {res!r}, {queries!r}
{probe_src}
def exact(tick):
    t = Fraction(0)
    for i, (tk, n) in enumerate(tempo):
        nxt = tempo[i + 1][0] if i + 1 < len(tempo) else None
        if nxt is not None and nxt <= tick:
            t += Fraction((nxt - tk) * 60 * 10**9, n * resolution)
        else:
            return t + Fraction((tick - tk) * 60 * 10**9, n * resolution), i
from chartparse.chart import Chart
c = Chart.from_file(io.StringIO(text))
us = lambda td: (td.days * 86400 + td.seconds) * 10**6 + td.microseconds
obs = probe(c)
q = c.sync_track.bpm_events
obs += [["query", t, us(q.timestamp_at_tick_no_optimize_return(t))] for t in queries]
obs += [["query2", t, us(q.timestamp_at_tick(t)[0])] for t in queries]
bad = 0
for kind, tick, got in obs:
    ex, seg = exact(tick)
    n = seg + (1 if tick > tempo[seg][0] else 0)  # segments traversed
    if ex < 10**12 and (abs(got - ex) > (Fraction(1, 2) + Fraction(2, 1000)) * n or (tick == 0 and got != 0)):
        print("VIOLATED:", kind, "tick", tick, "reported", got, "us; exact", float(ex), "us; governing tempo index", seg)
        bad += 1
sys.exit(1 if bad else 0)
"""


def setup():
    global probe
    impl.load()
    probe = e1.compile_probe(PROBE_SRC)


def seed_res(seed):
    return tuple(sorted({2 + (seed * 2654435761 + k * 40503) % 4999 for k in range(3)}))


def plan(tier, seed):
    ress = RES + seed_res(seed)
    shards = []
    k3_quick = (1, 3, 7, 192, 480) + seed_res(seed)[:1]
    for r in ress:
        for n0 in BPMS:
            shards.append(("full", r, n0, (2 if r in k3_quick else 1) if tier == "quick" else 3))
    for r in (1, 7, 192, 480):
        for n_events in LONG:
            shards.append(("long", r, n_events))
    shards += [("whole", r) for r in (100, 192, 480, 960)] + [("cancel",)] + [("song", r) for r in (1, 7, 192, 480, 1080)]
    if tier == "thorough":
        for r in RES:
            for n0 in SUB_BPMS:
                for n1 in SUB_BPMS:
                    shards.append(("deep", r, n0, n1, 6 if r in (1, 192) else 5))
    b = dict(long_maps="tempo maps of %r events (4 gap cycles x 3 BPM rotations) for resolutions 1, 7, 192, 480" % (LONG,), resolutions=list(ress), bpm_thousandths=list(BPMS), gaps=list(GAPS), segments=3, third_segment_resolutions=(list(k3_quick) if tier == "quick" else "all"), third_gap=[1, 192] if tier == "quick" else [1, 2, 192, 1000], third_bpm=list(BPMS3_QUICK) if tier == "quick" else list(BPMS))
    if tier == "thorough":
        b["deep"] = "k=4..5 (k=6 for resolutions 1 and 192) over bpm %r, gaps [1,192]" % (SUB_BPMS,)
    return dict(shards=shards, bounds=b, budget_s=1500 if tier == "thorough" else 300)


def probe_ticks(tempo, res):
    last = tempo[-1][0]
    cand = {0, 1}
    n = len(tempo)
    for i, (t, _) in enumerate(tempo):
        # long maps: events around the first / last tempo changes and every 7th one in between
        if n <= 12 or i < 3 or i >= n - 3 or i % 7 == 0:
            cand |= {t - 1, t, t + 1}
    cand |= {last + 1, last + 191, last + 10**4, last + 10**6}
    return [t for t in sorted(cand) if t >= 0 and exact_us(tempo, res, t)[0] < LIMIT]


def build(tempo, res, sparse=False, song=None):
    pts = probe_ticks(tempo, res)
    if sparse:  # events only near the beginning and near the end: long hops between consecutive events of a kind
        keep = [t for t in pts if t <= tempo[2][0] + 1 or t >= tempo[-2][0]]
        pts = keep if len(keep) >= 2 else pts
    sync = ["%d = B %d" % tn for tn in tempo] + ["%d = TS 4" % t for t in pts]
    if 0 not in pts:
        sync.append("0 = TS 4")
    ev, body, body2 = [], [], []
    for i, t in enumerate(pts):
        ev += ['%d = E "x%d"' % (t, i), '%d = E "section s%d"' % (t, i), '%d = E "lyric l%d"' % (t, i)]
        if i % 3 == 0:  # several events of ONE kind on one tick (phrase_end / phrase_start, soloend / solo ...)
            ev += ['%d = E "y%d"' % (t, i), '%d = E "lyric m%d"' % (t, i), '%d = E "section t%d"' % (t, i)]
        nxt = pts[i + 1] - t if i + 1 < len(pts) else 2
        k = i % 4
        if k == 0:  # single lane sustained to the next probe tick
            body += ["%d = N %d %d" % (t, i % 5, nxt)]
        elif k == 1:  # sustained OPEN note
            body += ["%d = N 7 %d" % (t, nxt)]
        elif k == 2:  # chord whose longest lane reaches the next probe tick, tap flag carrying a length
            body += ["%d = N 0 0" % t, "%d = N 3 %d" % (t, nxt), "%d = N 6 %d" % (t, nxt + 3)]
        else:  # orange lane alone
            body += ["%d = N 4 %d" % (t, nxt)]
        body += ["%d = S 2 1" % t, "%d = E solo" % t]
        # second track: sustains reaching the probe tick AFTER the next one (they overlap the next note and cross
        # whatever tempo changes lie in between)
        nxt2 = pts[i + 2] - t if i + 2 < len(pts) else nxt + 5
        body2 += ["%d = N 7 %d" % (t, nxt2) if i % 2 == 0 else "%d = N 2 %d" % (t, nxt2), "%d = E e" % t] + (["%d = E f" % t, "%d = S 2 0" % t, "%d = S 2 2" % t] if i % 3 == 1 else [])
    return mk(res=res, sync=sync, events=ev, tracks=[("ExpertSingle", body), ("EasyGHLBass", body2)], song=(None if song is None else song_envs(res)[song])), pts


def check_map(ctx, tempo, res, sparse=False, song=None):
    text, pts = build(tempo, res, sparse, song)
    ctx.case((res, tuple(tempo), sparse, song), nontrivial=len(tempo) >= 2, sample=lambda: dict(resolution=res, tempo=[list(x) for x in tempo], probe_ticks=pts))
    try:
        c = impl.parse(text)
    except Exception as e:  # noqa: BLE001
        # every chart of this enumeration is well-formed (tempo map strictly increasing from tick 0 with
        # positive tempi, signature at tick 0, bodies in tick order): a rejection means that NO timestamp is
        # reported for any of its ticks
        ctx.hist["rejected_by_parser"] += 1
        ctx.evaluations += 1
        _report(ctx, text, tempo, res, pts, "the well-formed chart is rejected with %s: %s" % (type(e).__name__, str(e)[:160]), key="rejected-well-formed", song=song)
        return
    ctx.hist["accepted"] += 1
    obs = probe(c)
    be = c.sync_track.bpm_events
    for t in pts:
        for kind, f in (("query", be.timestamp_at_tick_no_optimize_return), ("query2", lambda x: be.timestamp_at_tick(x)[0])):
            try:
                obs.append([kind, t, impl.us(f(t))])
            except Exception as e:  # noqa: BLE001
                _report(ctx, text, tempo, res, pts, "%s for tick %d raises %s" % (kind, t, type(e).__name__), song=song)
                return
    cache = {}
    for kind, tick, got in obs:
        if tick not in cache:
            cache[tick] = exact_us(tempo, res, tick)
        ex, seg = cache[tick]
        if ex >= LIMIT:
            continue
        ctx.evaluations += 1
        if abs(got - ex) > TOL * traversed(tempo, seg, tick) or (tick == 0 and got != 0):
            _report(ctx, text, tempo, res, pts, "%s%s at tick %d: reported %d us, exact %.4f us, governing tempo index %d" % ("" if song is None else "[Song] environment %d: " % song, kind, tick, got, float(ex), seg), song=song)
            return
    ctx.hist["segments_%d" % len(tempo)] += 1


def traversed(tempo, seg, tick):
    """Tempo segments traversed from tick 0 to `tick`: the `seg` completed ones plus the partial one."""
    return seg + (1 if tick > tempo[seg][0] else 0)


def _report(ctx, text, tempo, res, pts, msg, key="exact-time", song=None):
    t = [list(x) for x in tempo]
    ctx.violation(
        key,
        dict(tempo=t, resolution=res, song=song),
        "resolution %d tempo map %r: %s" % (res, t, msg),
        script=SCRIPT.format(text=text, tempo=t, res=res, queries=pts, probe_src=PROBE_SRC.strip("\n")),
    )


def run_shard(shard, ctx):
    kind = shard[0]
    if kind == "full":
        _, r, n0, kmax = shard
        ctx.node()
        check_map(ctx, [(0, n0)], r)
        for g1 in GAPS:
            for n1 in BPMS:
                if ctx.out_of_time():
                    return
                check_map(ctx, [(0, n0), (g1, n1)], r)
                if kmax >= 2:
                    for g2 in ((1, 192) if kmax == 2 else (1, 2, 192, 1000)):
                        for n2 in (BPMS3_QUICK if kmax == 2 else BPMS):
                            check_map(ctx, [(0, n0), (g1, n1), (g1 + g2, n2)], r)
    elif kind == "whole":
        # tempo spans that last EXACTLY a whole number of seconds (the float product often falls one ulp short of it):
        # every integer BPM 30..300 for which k seconds are a whole number of ticks, k = 1..3, then another tempo
        r = shard[1]
        for bpm in range(30, 301):
            for k in (1, 2, 3):
                if (k * bpm * r) % 60:
                    continue
                gap = k * bpm * r // 60
                for nxt in (120000, 97531):
                    ctx.node()
                    check_map(ctx, [(0, bpm * 1000), (gap, nxt), (gap + 2 * r, bpm * 1000 + 500)], r)
    elif kind == "song":
        # the [Song] section as an environment: free-text values quoting other fields' lines, numeric fields with
        # other values, the Resolution line first / last / in the middle - the resolution is what its own line says
        r = shard[1]
        for env in range(len(song_envs(r))):
            ctx.node()
            for tempo in ([(0, 120000)], [(0, 120000), (192, 60000)], [(0, 1118), (3, 333333), (195, 1000)], [(0, 10**9), (1, 1), (2, 120001), (1000, 999)]):
                check_map(ctx, tempo, r, song=env)
    elif kind == "cancel":
        # a huge tick count accumulated at a fast tempo, then a tempo lower by many orders of magnitude (differences
        # of large products cancel; times stay far below the timedelta range)
        for r, fast, T, slow in ((192, 600000000, 1920000000, 3), (1, 1000000000, 10000000, 7), (192, 600000000, 1920000000, 97), (960, 10**9, 16 * 10**9, 11), (480, 999999999, 10**9 + 7, 1001)):
            ctx.node()
            check_map(ctx, [(0, fast), (T, slow)], r)
            check_map(ctx, [(0, 120000), (5, fast), (T, slow), (T + 3, 333333)], r)
    elif kind == "long":
        _, r, n_events = shard
        cyc_b = (120000, 60000, 240001, 1118, 333333, 90500, 10**9, 1000)
        for gaps in ((1,), (2, 1), (192, 7, 1), (3, 5, 1000)):
            for rot in range(0, len(cyc_b), 3):
                ctx.node()
                ticks, t = [], 0
                for i in range(n_events):
                    ticks.append(t)
                    t += gaps[i % len(gaps)]
                tempo = [(tk, cyc_b[(i + rot) % len(cyc_b)]) for i, tk in enumerate(ticks)]
                check_map(ctx, tempo, r)
                check_map(ctx, tempo, r, sparse=True)
    else:
        _, r, n0, n1, kmax = shard
        ctx.node(2)
        for k in range(4, kmax + 1):
            for ns in itertools.product(SUB_BPMS, repeat=k - 2):
                if ctx.out_of_time():
                    return
                for gaps in itertools.product((1, 192), repeat=k - 1):
                    ticks = [0]
                    for g in gaps:
                        ticks.append(ticks[-1] + g)
                    check_map(ctx, list(zip(ticks, (n0, n1) + ns)), r)


def replay(case):
    ctx = core_ctx()
    check_map(ctx, [tuple(x) for x in case["tempo"]], case["resolution"], song=case.get("song"))
    return ctx.violations


def core_ctx():
    from ..core import Ctx
    import time

    return Ctx(0, time.time() + 3600)
