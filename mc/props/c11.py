"""C11 - lookup hints are invisible; timestamps are never silently misplaced (E1 table + E2 histories).

Table: every (tempo map, tick, hint) -> result equals the un-hinted result when hint <= governing
index, ValueError otherwise; index == last tempo event at or before the tick.
Histories: the hint used for an event is the history of the events parsed before it, so every
sequence of ticks (in ANY order) of one event kind is a history; states are the sequences
themselves (the cursor is private, nothing is merged). Invariant on every state: the parse raises
ValueError, or every stored timestamp equals the un-hinted query for its tick.
"""

from __future__ import annotations

import itertools

from .. import envs, e1, impl
from ..chartgen import mk

ID = "C11"
LEVEL = "model_checking"
ENGINE = "E1 table + E2 history enumeration (states = event sequences, un-merged)"
RULE = (
    "table: tempo maps of <= 4 events over gaps {1,2,5} and long maps of 9..65 events x every tick 0..last+3 x every hint 0..len; histories: every "
    "sequence of <= L ticks over {0,1,4,5,6,9,10,11,20} in any order, for each of 10 event kinds and each map; distinct = "
    "distinct (map, kind, sequence) or (map, tick, hint); non-trivial = sequence has >= 2 events or hint > 0"
)
ASSUMPTIONS = [
    "hints range over 0..len(tempo events); negative hints are outside the quantifier (DESIGN.md 3.9)",
    "the un-hinted query is the oracle (its exactness is C01's business)",
]

TICKS = (0, 1, 4, 5, 6, 9, 10, 11, 20)
HMAPS = (
    ((0, 120000), (5, 60000), (10, 240000)),
    ((0, 90000), (1, 180000), (9, 45000), (20, 300000)),
    ((0, 200000), (4, 100000), (5, 50000), (6, 25000), (11, 400000)),
    ((0, 120000),),
    ((0, 60000), (10, 60000), (11, 120000)),
)
KINDS = ("TS", "text", "section", "lyric", "S", "E", "N0", "N6", "N12", "NC")

PROBE_SRC = '''
def probe(c):
    q = c.sync_track.bpm_events.timestamp_at_tick_no_optimize_return
    bad = []
    s, g = c.sync_track, c.global_events_track
    evs = list(s.time_signature_events) + list(g.text_events) + list(g.section_events) + list(g.lyric_events)
    for dd in c.instrument_tracks.values():
        for t in dd.values():
            evs += list(t.star_power_events) + list(t.track_events) + list(t.note_events)
    for e in evs:
        if e.timestamp != q(e.tick):
            bad.append([type(e).__name__, e.tick, str(e.timestamp), str(q(e.tick))])
        if hasattr(e, "end_timestamp") and e.end_timestamp != q(e.end_tick):
            bad.append([type(e).__name__ + " end", e.end_tick, str(e.end_timestamp), str(q(e.end_tick))])
    return bad if bad else "consistent"
'''
probe = None

TABLE_SCRIPT = """text = {text!r}
tick, hint, governing = {tick}, {hint}, {gov}
from chartparse.chart import Chart
be = Chart.from_file(io.StringIO(text)).sync_track.bpm_events
ref = be.timestamp_at_tick(tick)
try:
    got = be.timestamp_at_tick(tick, start_iteration_index=hint)
except ValueError:
    got = "ValueError"
print("un-hinted:", ref, "hint", hint, "->", got, "governing index", governing)
ok = ref[1] == governing and ((got == ref) if hint <= governing else (got == "ValueError"))
sys.exit(0 if ok else 1)
"""


def setup():
    envs.enable(64)  # E1-M: every 64th case again under every environment of mc/envs.py
    global probe
    impl.load()
    probe = e1.compile_probe(PROBE_SRC)


LONG = (9, 10, 11, 12, 16, 17, 18, 24, 33, 40, 65)  # lengths around plausible fast-path thresholds


def table_maps():
    bp = (120000, 60000, 240000, 99999)
    out = []
    for k in range(1, 5):
        for gaps in itertools.product((1, 2, 5), repeat=k - 1):
            ticks = [0]
            for g in gaps:
                ticks.append(ticks[-1] + g)
            out.append(tuple(zip(ticks, bp[:k])))
            # tempo lines that RESTATE the tempo in force (equal neighbours, runs of equal tempi): every assignment
            # over a two-value alphabet
            if k >= 2:
                for sel in itertools.product((120000, 60000), repeat=k):
                    if any(a == b for a, b in zip(sel, sel[1:])):
                        out.append(tuple(zip(ticks, sel)))
    # crawling tempi: tempo events whose own timestamps lie beyond one day (0.001 BPM for 300 ticks is 26 hours)
    out += [((0, 1), (300, 2), (303, 120000)), ((0, 120000), (2, 1), (302, 1), (602, 60000)), ((0, 1), (277, 1000), (278, 1))]
    return out


def long_map(n, gap_cycle=(1, 2)):
    bp = (120000, 60000, 240000, 99999, 333333, 45000)
    if len(gap_cycle) == 3:  # the three-gap layout restates tempi: runs of 1, 2 and 3 equal tempo lines
        bp = (120000, 60000, 60000, 240000, 240000, 240000, 99999)
    ticks, t = [], 0
    for i in range(n):
        ticks.append(t)
        t += gap_cycle[i % len(gap_cycle)]
    return tuple((tk, bp[i % len(bp)]) for i, tk in enumerate(ticks))


def plan(tier, seed):
    L = 4 if tier == "quick" else 5
    maps = HMAPS[:3] if tier == "quick" else HMAPS
    shards = [("optimised", ("-O",)), ("optimised", ("-OO",)), ("table",)] + [("longtable", n) for n in LONG] + [("hugetable", n) for n in (257, 300, 1025, 1100)] + [("longhist", n, k) for n in (10, 18, 40) for k in KINDS]
    for mi in range(len(maps)):
        for k in KINDS:
            for t0 in TICKS:
                shards.append(("hist", mi, k, t0, L))
    return dict(shards=shards, bounds=dict(history_length=L, maps=[list(map(list, m)) for m in maps], tick_alphabet=list(TICKS), kinds=list(KINDS), table_maps=len(table_maps())), budget_s=1500 if tier == "thorough" else 300)


def line_for(kind, t, i):
    if kind == "TS":
        return "sync", "%d = TS %d" % (t, 3 + i)
    if kind == "text":
        return "ev", '%d = E "x%d"' % (t, i)
    if kind == "section":
        return "ev", '%d = E "section s%d"' % (t, i)
    if kind == "lyric":
        return "ev", '%d = E "lyric l%d"' % (t, i)
    if kind == "S":
        return "tr", "%d = S 2 %d" % (t, 3)
    if kind == "E":
        return "tr", "%d = E e%d" % (t, i)
    if kind == "NC":  # chord: unsustained lane written first, held lane second, tap flag carrying a length last
        return "tr", ["%d = N %d 0" % (t, i % 2), "%d = N %d 7" % (t, 2 + i % 3), "%d = N 6 9" % t]
    return "tr", "%d = N %d %s" % (t, i % 5, kind[1:])


def hist_text(tempo, kind, seq):
    sync = ["0 = TS 4"] + ["%d = B %d" % tn for tn in tempo]
    ev, tr = [], []
    for i, t in enumerate(seq):
        where, ln = line_for(kind, t, i)
        {"sync": sync, "ev": ev, "tr": tr}[where].extend(ln if isinstance(ln, list) else [ln])
    return mk(res=4, sync=sync, events=ev, tracks={"ExpertSingle": tr})


ACCEPT = ["consistent", ["raises", "ValueError"]]


def run_shard(shard, ctx):
    if shard[0] == "optimised":
        from .. import core
        import sys

        sub = [("table",), ("longtable", 10)] + [("hist", 0, k, t0, 3) for k in ("section", "N6", "S") for t0 in (0, 6, 20)]
        core.run_in_other_interpreter(ctx, sys.modules[__name__], sub, shard[1], "hint table of the short maps and of a 10-event map; histories of <= 3 ticks for sections, held notes and phrases")
        return
    if shard[0] == "longhist":
        # histories on a long tempo map: ticks around its beginning, middle and end
        _, n, kind = shard
        tempo = long_map(n)
        tk = [t for t, _ in tempo]
        alpha = (0, tk[1], tk[n // 2], tk[-2], tk[-1], tk[-1] + 9)
        for L in (1, 2, 3):
            for seq in itertools.product(alpha, repeat=L):
                text = hist_text(tempo, kind, seq)
                got = e1.run_probe(probe, text)
                ctx.case((n, kind, seq), nontrivial=L >= 2, sample=lambda: dict(map_events=n, kind=kind, ticks=list(seq)))
                ctx.evaluations += L
                ctx.hist["rejected(ValueError)" if got != "consistent" else "parsed_consistent"] += 1
                if got not in ACCEPT:
                    e1.report(ctx, "history", text, PROBE_SRC, ACCEPT, got, "kind %s, ticks in file order %r on a tempo map of %d events: stored timestamp differs from the un-hinted query (or a non-ValueError escaped)" % (kind, list(seq), n), extra_case=dict(kind="hist"))
        return
    if shard[0] in ("table", "longtable", "hugetable"):
        maps_ = table_maps() if shard[0] == "table" else ([long_map(shard[1]), long_map(shard[1], (3,)), long_map(shard[1], (1, 2, 4))] if shard[0] == "longtable" else [long_map(shard[1])])
        for tempo in maps_:
            ctx.node()
            text = mk(sync=["0 = TS 4"] + ["%d = B %d" % tn for tn in tempo])
            try:
                be = impl.parse(text).sync_track.bpm_events
            except Exception as e:  # noqa: BLE001 - a well-formed tempo map that is rejected answers no query at all
                ctx.case((tuple(tempo), "rejected"))
                ctx.evaluations += 1
                ctx.violation("table", dict(kind="table", tempo=[list(x) for x in tempo], tick=0, hint=0), "tempo map %r (well-formed) is rejected with %s: no tick of it can be looked up" % ([list(x) for x in tempo][:6], type(e).__name__))
                continue
            tks = [t for t, _ in tempo]
            # "every timestamp stored on a parsed event equals the un-hinted query for its tick" - the tempo events
            # themselves included
            for i, ev in enumerate(be):
                ctx.evaluations += 1
                try:
                    qv = be.timestamp_at_tick(ev.tick)[0]
                except Exception as e:  # noqa: BLE001
                    qv = "un-hinted query raises " + type(e).__name__
                if qv != ev.timestamp:
                    ctx.violation("stored-tempo-time", dict(kind="stored", tempo=[list(x) for x in tempo], index=i), "tempo map %r: tempo event %d (tick %d) stores the timestamp %s, the un-hinted query for its tick says %s" % ([list(x) for x in tempo][:8], i, ev.tick, ev.timestamp, qv))
                    break
            if shard[0] == "hugetable":  # very long maps: ticks around the beginning, powers of two, the middle and the end
                n_ = len(tks)
                sel_ = sorted({0, 1, 2, 7, 8, 9, 15, 16, 17, 31, 32, 33, 63, 64, 65, 127, 128, 129, 255, 256, 257, n_ // 2, n_ - 3, n_ - 2, n_ - 1} & set(range(n_)))
                tick_list = sorted({tks[i] + d for i in sel_ for d in (-1, 0, 1) if tks[i] + d >= 0}) + [tks[-1] + 10**6]
            else:
                tick_list = list(range(0, tks[-1] + 4)) + [tks[-1] + 10**6, tks[-1] + 2**32]
            # a SECOND tempo map queried at the same tick immediately before every hinted query (short maps only):
            # what another map was asked a moment ago is as invisible as the hint
            others = [impl.parse(mk(sync=["0 = TS 4"] + ["%d = B %d" % tn for tn in om])).sync_track.bpm_events for om in (((0, 97531), (2, 10**6), (3, 1), (7, 120000), (11, 60000)), ((0, 1000),))] if shard[0] == "table" else []
            for tick in tick_list:
                gov = max(i for i, t in enumerate(tks) if t <= tick)
                try:
                    ref = be.timestamp_at_tick(tick)
                except Exception as e:  # noqa: BLE001
                    ref = ("un-hinted query raises " + type(e).__name__, None)
                for hint in list(range(0, len(tempo) + 1)) + [-1 - k for k in range(len(others) * (len(tempo) + 1))]:
                    if hint < 0:  # the same hints again, each right after another map answered for this tick
                        k = -1 - hint
                        hint = k % (len(tempo) + 1)
                        for t_ in (tick + 1, tick):  # ... so that the other map's LAST answer is for this very tick
                            try:
                                others[k // (len(tempo) + 1)].timestamp_at_tick(t_)
                            except Exception:  # noqa: BLE001
                                pass
                    try:
                        got = be.timestamp_at_tick(tick, start_iteration_index=hint)
                    except ValueError:
                        got = "ValueError"
                    except Exception as e:  # noqa: BLE001
                        got = "raises " + type(e).__name__
                    ctx.case(("table", tempo, tick, hint, ctx.evaluations), nontrivial=hint > 0, sample=dict(tempo=[list(x) for x in tempo], tick=tick, hint=hint, governing=gov))
                    ctx.evaluations += 1
                    ctx.hist["hint_ok" if hint <= gov else "hint_beyond"] += 1
                    ok = ref[1] == gov and ((got == ref) if hint <= gov else (got == "ValueError"))
                    if not ok:
                        ctx.violation(
                            "hint-table",
                            dict(kind="table", tempo=[list(x) for x in tempo], tick=tick, hint=hint),
                            "tempo ticks %r, tick %d, hint %d (governing index %d): un-hinted %r, hinted %r" % (tks, tick, hint, gov, ref, got),
                            script=TABLE_SCRIPT.format(text=text, tick=tick, hint=hint, gov=gov),
                        )
        return
    _, mi, kind, t0, L = shard
    tempo = HMAPS[mi]
    ctx.node()
    for n in range(0, L):
        for rest in itertools.product(TICKS, repeat=n):
            if ctx.out_of_time():
                return
            seq = (t0,) + rest
            text = hist_text(tempo, kind, seq)
            got = e1.run_probe(probe, text)
            ctx.case((mi, kind, seq), nontrivial=len(seq) >= 2, sample=lambda: dict(map=[list(x) for x in tempo], kind=kind, ticks=list(seq)))
            ctx.evaluations += len(seq)
            ctx.hist["rejected(ValueError)" if got != "consistent" else "parsed_consistent"] += 1
            if got not in ACCEPT:
                e1.report(ctx, "history", text, PROBE_SRC, ACCEPT, got, "kind %s, ticks in file order %r on tempo map %r: stored timestamp differs from the un-hinted query (or a non-ValueError escaped)" % (kind, list(seq), [list(x) for x in tempo]), extra_case=dict(kind="hist"))


def replay(case):
    if case.get("kind") == "stored":
        tempo = [tuple(x) for x in case["tempo"]]
        be = impl.parse(mk(sync=["0 = TS 4"] + ["%d = B %d" % tn for tn in tempo])).sync_track.bpm_events
        ev = be[case["index"]]
        qv = be.timestamp_at_tick(ev.tick)[0]
        return [] if qv == ev.timestamp else [dict(key="stored-tempo-time", msg="still fails: stored %s, query %s" % (ev.timestamp, qv), case=case)]
    if case.get("kind") == "table":
        tempo = [tuple(x) for x in case["tempo"]]
        text = mk(sync=["0 = TS 4"] + ["%d = B %d" % tn for tn in tempo])
        try:
            be = impl.parse(text).sync_track.bpm_events
        except Exception as e:  # noqa: BLE001
            return [dict(key="table", msg="still fails: the well-formed tempo map is rejected with %s" % type(e).__name__, case=case)]
        tick, hint = case["tick"], case["hint"]
        gov = max(i for i, (t, _) in enumerate(tempo) if t <= tick)
        try:
            ref = be.timestamp_at_tick(tick)
        except Exception as e:  # noqa: BLE001
            ref = ("un-hinted query raises " + type(e).__name__, None)
        try:
            got = be.timestamp_at_tick(tick, start_iteration_index=hint)
        except ValueError:
            got = "ValueError"
        except Exception as e:  # noqa: BLE001
            got = "raises " + type(e).__name__
        ok = ref[1] == gov and ((got == ref) if hint <= gov else (got == "ValueError"))
        return [] if ok else [dict(key="hint-table", msg="still fails: %r vs %r" % (ref, got), case=case)]
    return e1.replay_text_case(case, probe, "history", PROBE_SRC)
