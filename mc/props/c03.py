"""C03 - sustains, end tick, end time, last-note-end (engine E1)."""

from __future__ import annotations

import itertools

from .. import envs, e1, impl
from ..chartgen import mk

ID = "C03"
LEVEL = "model_checking"
ENGINE = "E1 bounded-exhaustive generation-tree explorer"
RULE = (
    "all 4^5-1 lane/length patterns (lane in {inactive,0,3,5}) + open x flag lines carrying a length (written after, before and between the lane lines) x contexts "
    "(alone / after / before / between short notes) x tempo maps changing before, inside, at and after the sustain x "
    "resolutions; distinct = distinct chart text; non-trivial = at least two active lanes or a non-zero length"
)
ASSUMPTIONS = [
    "time fields are compared with the implementation's own un-hinted query (exact equality), C01 owns exactness",
    "lengths outside {0,3,5} and more than three notes per track are not explored",
]

PROBE_SRC = '''
def probe(c):
    from chartparse.instrument import Instrument, Difficulty
    us = lambda td: (td.days * 86400 + td.seconds) * 10**6 + td.microseconds
    q = c.sync_track.bpm_events.timestamp_at_tick_no_optimize_return
    t = next(t for dd in c.instrument_tracks.values() for t in dd.values())  # the only track of the chart
    notes = []
    for e in t.note_events:
        s = e.sustain if isinstance(e.sustain, int) else list(e.sustain)
        notes.append([e.tick, s, e.longest_sustain, e.end_tick,
                      us(e.end_timestamp) - us(q(e.end_tick)), e.end_timestamp >= e.timestamp])
    lne = t.last_note_end_timestamp
    if lne is None:
        track = None if not t.note_events else "None although the track has notes"
    else:
        track = us(lne) - max([us(q(e.end_tick)) for e in t.note_events], default=-1)
    return [notes, track]
'''
probe = None

LEN = (None, 0, 3, 5)
PATTERNS = [p for p in itertools.product(LEN, repeat=5) if any(x is not None for x in p)] + [("open", 0), ("open", 3), ("open", 5)]
# (name, lines before, lines after, allowed flag sets)
FLAGSETS = {"none": (), "tap": ((6, 9),), "forced": ((5, 7),), "both": ((5, 7), (6, 9))}
CONTEXTS = (
    ("alone", [], [], ("none", "tap")),
    ("after", ["2 = N 0 0"], [], ("none", "tap", "forced", "both")),
    ("before", [], ["12 = N 1 1"], ("none", "tap")),
    ("between", ["2 = N 0 0"], ["12 = N 1 1"], ("none", "tap", "forced", "both")),
)
ORDERS = ("lanes-flags", "flags-lanes", "flags-inside", "lanes-descending", "lanes-rotated")
MAPS = (
    ("const", []),
    ("at+1", ["11 = B 60000"]),
    ("at+4", ["14 = B 240000"]),
    ("at-ends", ["13 = B 60000", "15 = B 31000"]),
    ("two-inside", ["12 = B 99999", "14 = B 200000"]),
    ("before+after", ["5 = B 77000", "16 = B 50000"]),
    ("sub-microsecond", ["9 = B 10000000000", "14 = B 20000000000"]),
)


def setup():
    envs.enable(64)  # E1-M: every 64th case again under every environment of mc/envs.py
    global probe
    impl.load()
    probe = e1.compile_probe(PROBE_SRC)


def plan(tier, seed):
    ress = (192,) if tier == "quick" else (192, 7, 1)
    maps = MAPS[:5] + MAPS[6:] if tier == "quick" else MAPS
    shards = [(r, MAPS.index(m), lo) for r in ress for m in maps for lo in range(0, len(PATTERNS), 128)]
    shards.append(("empty",))
    shards.append(("flagonly",))
    shards.append(("lengths",))
    shards += [("tracks", k) for k in range(2, 7)]
    shards += [("headers", k) for k in range(8)]
    shards += [("big", lo) for lo in range(0, len(PATTERNS), 128)]
    return dict(
        shards=shards,
        bounds=dict(patterns=len(PATTERNS), contexts=[c[0] for c in CONTEXTS], maps=[m[0] for m in maps], resolutions=list(ress)),
        budget_s=300,
    )


def expected_note(pat):
    if pat[0] == "open":
        return pat[1], pat[1]
    act = [x for x in pat if x is not None]
    return (act[0] if len(set(act)) == 1 else list(pat)), max(act)


def pat_lines(pat):
    if pat[0] == "open":
        return ["10 = N 7 %d" % pat[1]]
    return ["10 = N %d %d" % (i, ln) for i, ln in enumerate(pat) if ln is not None]


def run_shard(shard, ctx):
    if shard[0] == "empty":
        for body in ([], ["0 = S 2 5"], ["3 = E solo"], ["0 = S 2 5", "3 = E solo"]):
            text = mk(tracks={"ExpertSingle": body})
            got = e1.run_probe(probe, text)
            ctx.case(text, sample=dict(body=body))
            ctx.evaluations += 1
            if got != [[], None]:
                e1.report(ctx, "empty-track", text, PROBE_SRC, [[[], None]], got, "note-less track: last_note_end must be absent, body=%r" % body)
        # the opposite corner: a track whose ONLY note sits at tick 0 with every length 0 - its last-note-end is time
        # zero, which is a time and not "absent" (every combination, open, with and without the tap flag / S / E lines)
        from ..chartgen import COMBOS, note_lines

        for combo in COMBOS:
            for flags in ((), (6,)):
                for extra in ([], ["0 = S 2 0", "0 = E solo"]):
                    for sync in (["0 = TS 4", "0 = B 120000"], ["0 = TS 4", "0 = B 1", "1 = B 999999"]):
                        body = note_lines(0, combo, flags) + extra
                        text = mk(sync=sync, tracks={"ExpertSingle": body})
                        expected = [[[0, 0, 0, 0, 0, True]], 0]
                        got = e1.run_probe(probe, text)
                        ctx.case(text, sample=dict(body=body))
                        ctx.evaluations += 7
                        if got != expected:
                            e1.report(ctx, "sustain", text, PROBE_SRC, [expected], got, "a single unsustained note at tick 0 (last-note-end is time zero, not absent): body=%r" % body)
        return
    if shard[0] == "headers":
        # the statement is about notes of any track: a sample of the patterns under every one of the 40 headers
        from ..refmodel import TRACK_HEADERS

        mname, mlines = MAPS[4]
        sync = ["0 = TS 4", "0 = B 120000"] + mlines
        for header in list(TRACK_HEADERS)[shard[1] :: 8]:
            for pat in PATTERNS[::16] + PATTERNS[-3:]:
                ctx.node()
                sus, longest = expected_note(pat)
                for fs in ("none", "both"):
                    group = pat_lines(pat) + ["10 = N %d %d" % f for f in FLAGSETS[fs]]
                    _one(ctx, 192, sync, mname, "between", fs, "lanes-flags", ["2 = N 0 0"], group, ["12 = N 1 1"], pat, sus, longest, header=header)
                    if header in ("ExpertSingle", "HardDrums"):
                        for pad in (("", " "), ("", "\t"), ("\t", ""), ("   ", " \t ")):
                            _one(ctx, 192, sync, mname, "between", fs, "lanes-flags", ["2 = N 0 0"], group, ["12 = N 1 1"], pat, sus, longest, header=header, pad=pad)
        return
    if shard[0] == "lengths":
        # length VALUES: every value 0..300 and values around powers of two and ten, on equal-length chords, mixed
        # chords, single and open notes (identity vs equality of integers, narrow integer types, digit counts); values whose END TIME at 120 BPM exceeds the timedelta range (>= 2^55 ticks) are left to the fast-tempo 'big' shard
        vals = sorted(set(range(0, 301)) | {2**k + d for k in (8, 15, 16, 31, 32, 53) for d in (-1, 0, 1)} | {10**k + d for k in (3, 6, 9, 12) for d in (-1, 0)})
        mname, mlines = MAPS[0]
        sync = ["0 = TS 4", "0 = B 120000"] + mlines
        for L in vals:
            ctx.node()
            for pat in ((L, L, None, None, None), (L, L, L, L, L), (None, L, None, None, L), (L, None, L + 1, None, None), (None, None, L, None, None), ("open", L), (0, L, None, None, L)):
                sus, longest = expected_note(pat)
                group = pat_lines(pat) + ["10 = N 6 %d" % (L + 2)]
                body = ["2 = N 0 0"] + group
                text = mk(res=192, sync=sync, tracks={"ExpertSingle": body})
                expected = [[[2, 0, 0, 2, 0, True], [10, sus, longest, 10 + longest, 0, True]], 0]
                got = e1.run_probe(probe, text)
                ctx.case(text, nontrivial=True, sample=lambda: dict(body=body))
                ctx.evaluations += 13
                ctx.hist["length_values"] += 1
                if got != expected:
                    e1.report(ctx, "sustain", text, PROBE_SRC, [expected], got, "length value %d: sustain / end tick / end time / last-note-end differ: body=%r" % (L, body))
        return
    if shard[0] == "tracks":
        # whole tracks: K notes, every assignment of a length out of {0, 1, 5, 40} to every note - the longest
        # sustain sits on any note, shorter ones before, after and in between (last-note-end = max over ALL notes)
        K = shard[1]
        ticks = [2, 10, 12, 14, 17, 30][:K]
        for mname, mlines in (MAPS[0], MAPS[4], MAPS[5]):
            sync = ["0 = TS 4", "0 = B 120000"] + mlines
            for lens in itertools.product((0, 1, 5, 40), repeat=K):
                if K == 6 and lens[0] not in (0, 40):
                    continue
                ctx.node()
                body = ["%d = N %d %d" % (t, i % 5, ln) for i, (t, ln) in enumerate(zip(ticks, lens))]
                text = mk(res=192, sync=sync, tracks={"ExpertSingle": body})
                expected = [[[t, ln, ln, t + ln, 0, True] for t, ln in zip(ticks, lens)], 0]
                got = e1.run_probe(probe, text)
                ctx.case(text, nontrivial=any(lens), sample=lambda: dict(body=body, sync=sync))
                ctx.evaluations += 6 * K + 1
                ctx.hist["whole_tracks"] += 1
                if got != expected:
                    e1.report(ctx, "sustain", text, PROBE_SRC, [expected], got, "track of %d notes with lengths %r (map %s): sustain / end tick / end time / last-note-end differ: body=%r" % (K, list(lens), mname, body))
        return
    if shard[0] == "flagonly":
        # "flag lines never contribute a length": a tick that carries ONLY flag lines must look the same whatever
        # lengths those lines carry (differential against the same chart with length 0)
        for mname, mlines in MAPS:
            sync = ["0 = TS 4", "0 = B 120000"] + mlines
            for flags_ in ((6,), (5,), (5, 6), (6, 5), (6, 6)):
                for before, after in ((["2 = N 0 0"], []), (["2 = N 0 0"], ["12 = N 1 1"]), ([], ["12 = N 1 1"]), ([], [])):
                    if 5 in flags_ and not before:
                        continue  # forcing the first note is rejected
                    ctx.node()
                    base = None
                    for L in (0, 1, 3, 5, 480):
                        for which in range(len(flags_)):
                            body = before + ["10 = N %d %d" % (f, L if k == which else 0) for k, f in enumerate(flags_)] + after
                            text = mk(res=192, sync=sync, tracks={"ExpertSingle": body})
                            got = e1.run_probe(probe, text)
                            ctx.case(text, nontrivial=L > 0, sample=lambda: dict(body=body, sync=sync))
                            ctx.evaluations += 1
                            if base is None:
                                base = got
                            elif got != base:
                                e1.report(ctx, "sustain", text, PROBE_SRC, [base], got, "a tick carrying only flag lines: the length %d written on a flag line changes the note (map %s): body=%r" % (L, mname, body))
        return
    if shard[0] == "big":
        # tick and length MAGNITUDES: the note at a tick beyond 2^32, lengths scaled by 2^30 (fast tempo keeps times small)
        for pat in PATTERNS[shard[1] : shard[1] + 128 : 3]:
            ctx.node()
            for base, scale in ((2**32 + 6, 1), (10, 2**30), (2**62, 2**40)):
                p2 = tuple(x if (x is None or x == "open") else x * scale for x in pat)
                sus, longest = expected_note(p2)
                t = base
                lanes_ = ["%d = N 7 %d" % (t, p2[1])] if p2[0] == "open" else ["%d = N %d %d" % (t, i, ln) for i, ln in enumerate(p2) if ln is not None]
                body = ["2 = N 0 0"] + lanes_ + ["%d = N 6 9" % t]
                text = mk(res=960, sync=["0 = TS 4", "0 = B 1000000000", "%d = B 900000000" % (t + 1)], tracks={"ExpertSingle": body})
                expected = [[[2, 0, 0, 2, 0, True], [t, sus, longest, t + longest, 0, True]], 0]
                got = e1.run_probe(probe, text)
                ctx.case(text, sample=lambda: dict(body=body, expected=expected))
                ctx.evaluations += 13
                ctx.hist["magnitude_cases"] += 1
                if got != expected:
                    e1.report(ctx, "sustain", text, PROBE_SRC, [expected], got, "tick %d, lengths scaled by %d: body=%r" % (base, scale, body))
        return
    res, mi, lo = shard
    mname, mlines = MAPS[mi]
    sync = ["0 = TS 4", "0 = B 120000"] + mlines
    for pat in PATTERNS[lo : lo + 128]:
        ctx.node()
        if ctx.out_of_time():
            return
        sus, longest = expected_note(pat)
        for cname, before, after, fsets in CONTEXTS:
            for fs in fsets:
                lanes_, flags_ = pat_lines(pat), ["10 = N %d %d" % f for f in FLAGSETS[fs]]
                for order in ORDERS:
                    if order in ("lanes-descending", "lanes-rotated"):
                        # the lane lines of one tick in another order than ascending (each lane keeps ITS length)
                        if pat[0] == "open" or len(lanes_) < 2 or cname not in ("alone", "between") or fs not in ("none", "both") or (order == "lanes-rotated" and len(lanes_) < 3):
                            continue
                        group = (lanes_[::-1] if order == "lanes-descending" else lanes_[1:] + lanes_[:1]) + flags_
                        _one(ctx, res, sync, mname, cname, fs, order, before, group, after, pat, sus, longest)
                        continue
                    if order != "lanes-flags" and (not flags_ or pat[0] == "open" or (order == "flags-inside" and len(lanes_) < 2)):
                        continue  # a flag before an open-note line is outside the domain (DESIGN.md 3.1)
                    if order == "lanes-flags":
                        group = lanes_ + flags_
                    elif order == "flags-lanes":
                        group = flags_ + lanes_
                    else:  # flags after the first lane line
                        group = lanes_[:1] + flags_ + lanes_[1:]
                    _one(ctx, res, sync, mname, cname, fs, order, before, group, after, pat, sus, longest)


def _one(ctx, res, sync, mname, cname, fs, order, before, group, after, pat, sus, longest, header="ExpertSingle", pad=("", "")):
    body = [pad[0] + ln + pad[1] for ln in before + group + after]  # blank padding around the lines (promised by C07)
    text = mk(res=res, sync=sync, tracks={header: body})
    exp_notes = []
    if before:
        exp_notes.append([2, 0, 0, 2, 0, True])
    exp_notes.append([10, sus, longest, 10 + longest, 0, True])
    if after:
        exp_notes.append([12, 1, 1, 13, 0, True])
    expected = [exp_notes, 0]
    got = e1.run_probe(probe, text)
    nontriv = pat[0] != "open" and (sum(x is not None for x in pat) >= 2) or longest > 0
    ctx.case(text, nontrivial=bool(nontriv), sample=lambda: dict(body=body, sync=sync, expected=expected))
    ctx.evaluations += 6 * len(exp_notes) + 1
    ctx.hist["sustain_" + ("tuple" if isinstance(sus, list) else "uniform")] += 1
    if got != expected:
        e1.report(ctx, "sustain", text, PROBE_SRC, [expected], got, "sustain / end tick / end time / last-note-end differ (section [%s], map %s, context %s, flags %s, line order %s): body=%r" % (header, mname, cname, fs, order, body))


def replay(case):
    return e1.replay_text_case(case, probe, "sustain", PROBE_SRC)
