"""C12 - time is a non-decreasing function of tick across the whole chart (engine E1)."""

from __future__ import annotations

import itertools

from .. import envs, e1, impl
from ..chartgen import mk

ID = "C12"
LEVEL = "model_checking"
ENGINE = "E1 bounded-exhaustive generation-tree explorer"
RULE = (
    "every tempo map of <= K segments over BPM {0.001, 1, 120, strictness boundary 3*10^7/resolution, 10^6} and gaps {1,2,7} "
    "per resolution; EVERY tick 0..last+5 is queried and carries events in two tracks; all adjacent pairs compared; "
    "distinct = distinct (resolution, map); non-trivial = >= 2 tempo events"
)
ASSUMPTIONS = [
    "strictness is demanded only when BPM x resolution <= 3*10^7 for every tempo of the chart",
    "maps longer than the bound and gaps beyond 7 are not explored",
]

RES = (1, 3, 192, 960)
GAPS = (1, 2, 7)

PROBE_SRC = '''
def probe(c):
    from chartparse.instrument import Instrument, Difficulty
    us = lambda td: (td.days * 86400 + td.seconds) * 10**6 + td.microseconds
    be = c.sync_track.bpm_events
    res = be.resolution
    strict = STRICT
    last = max(e.tick for e in be) + 5
    bad = []
    q = [us(be.timestamp_at_tick_no_optimize_return(t)) for t in range(last + 1)]
    for t in range(last):
        if q[t] > q[t + 1] or (strict and q[t] == q[t + 1]):
            bad.append(["query", t, q[t], t + 1, q[t + 1]])
    at = {}
    evs = list(c.sync_track.time_signature_events) + list(c.global_events_track.text_events)
    for dd in c.instrument_tracks.values():
        for tr in dd.values():
            evs += list(tr.note_events) + list(tr.star_power_events) + list(tr.track_events)
            for e in tr.note_events:
                if e.end_timestamp < e.timestamp:
                    bad.append(["note ends before it starts", e.tick, us(e.timestamp), e.end_tick, us(e.end_timestamp)])
                at.setdefault(e.end_tick, set()).add(us(e.end_timestamp))
    for e in evs:
        at.setdefault(e.tick, set()).add(us(e.timestamp))
    for t in range(last + 1):
        at.setdefault(t, set()).add(q[t])
    ticks = sorted(at)
    for t in ticks:
        if len(at[t]) != 1:
            bad.append(["equal ticks, different timestamps", t, sorted(at[t])])
    for a, b in zip(ticks, ticks[1:]):
        if max(at[a]) > min(at[b]):
            bad.append(["events out of order", a, sorted(at[a]), b, sorted(at[b])])
    return bad if bad else "monotone"
'''
probes = {}


def src(strict):
    return "STRICT = %r  # BPM x resolution <= 3*10^7 for every tempo of this chart\n" % strict + PROBE_SRC.strip("\n")


def setup():
    envs.enable(64)  # E1-M: every 64th case again under every environment of mc/envs.py
    impl.load()
    for s_ in (True, False):
        probes[s_] = e1.compile_probe(src(s_))


def bpms(r):
    return (1, 1000, 120000, 3 * 10**10 // r, 10**9)


def plan(tier, seed):
    K = 4 if tier == "quick" else 5
    shards = [(r, i, K) for r in RES for i in range(5)] + [("subus", r) for r in (192, 960, 480)] + [("long", r) for r in RES] + [("far", r) for r in (1, 192)] + [("unsorted", r) for r in RES] + [("hold", r) for r in (1, 192)] + [("malformed", r) for r in RES]
    return dict(shards=shards, bounds=dict(resolutions=list(RES), segments=K, gaps=list(GAPS), bpm_thousandths={str(r): list(bpms(r)) for r in RES}), budget_s=900 if tier == "thorough" else 300)


def build(r, tempo):
    last = tempo[-1][0] + 5
    sync = ["%d = B %d" % tn for tn in tempo] + ["%d = TS %d" % (t, 4) for t in range(0, last + 1, 2)]
    ev = ['%d = E "x"' % t for t in range(0, last + 1, 3)]
    a = []
    b = []
    for t in range(last + 1):
        a.append("%d = N %d %d" % (t, t % 5, 1 + t % 3))
        if t % 2 == 0:
            b += ["%d = N 7 %d" % (t, 2), "%d = S 2 1" % t, "%d = E solo" % t]
        elif t % 4 == 1:
            b += ["%d = N 6 %d" % (t, 3)]  # a tick carrying only a flag line (with a length): a note of length 0
    return mk(res=r, sync=sync, events=ev, tracks=[("ExpertSingle", a), ("HardDrums", b)])


def run_shard(shard, ctx):
    if shard[0] == "subus":
        return _subus(ctx, shard[1])
    if shard[0] == "far":
        return _far(ctx, shard[1])
    if shard[0] == "malformed":
        return _malformed(ctx, shard[1])
    if shard[0] == "hold":
        # a tempo HELD for more ticks than its own value in thousandths (an error of one thousandth of a BPM in the
        # in-segment path grows to a whole tick just before the next change), for values whose float image is inexact
        r = shard[1]
        for v in (1001, 1003, 1021, 1118, 2002, 4004):
            for w in (120000, v + 1):
                tempo = [(0, 120000), (7, v), (7 + v + 3, w)]
                text = build(r, tempo)
                strict = all(n * r <= 3 * 10**10 for _, n in tempo)
                got = e1.run_probe(probes[strict], text)
                ctx.case((r, tuple(tempo)), sample=lambda: dict(resolution=r, tempo=[list(x) for x in tempo]))
                ctx.evaluations += 3 * (tempo[-1][0] + 5)
                ctx.hist["held_tempo_maps"] += 1
                if isinstance(got, list) and got[:1] == ["raises"]:
                    ctx.hist["undecided(parse or query raises; owned by C01/C08/C15)"] += 1
                elif got != "monotone":
                    e1.report(ctx, "monotone", text, src(strict), ["monotone"], got, "resolution %d tempo map %r (a tempo held for more ticks than its value in thousandths)" % (r, [list(x) for x in tempo]), extra_case=dict(strict=strict))
        # spans that last exactly one or two whole seconds (the float product often falls one ulp short)
        R = 100 if r == 1 else 192
        for bpm in range(30, 301):
            for k in (1, 2):
                if (k * bpm * R) % 60 or k * bpm * R // 60 > 700:
                    continue
                gap = k * bpm * R // 60
                tempo = [(0, bpm * 1000), (gap, 120000)]
                text = build(R, tempo)
                got = e1.run_probe(probes[True], text)
                ctx.case((R, tuple(tempo)), sample=lambda: dict(resolution=R, tempo=[list(x) for x in tempo]))
                ctx.evaluations += 3 * (gap + 5)
                ctx.hist["whole_second_spans"] += 1
                if isinstance(got, list) and got[:1] == ["raises"]:
                    ctx.hist["undecided(parse or query raises; owned by C01/C08/C15)"] += 1
                elif got != "monotone":
                    e1.report(ctx, "monotone", text, src(True), ["monotone"], got, "resolution %d tempo map %r (a span of exactly %d s)" % (R, [list(x) for x in tempo], k), extra_case=dict(strict=True))
        return
    if shard[0] == "unsorted":
        _unsorted(ctx, shard[1])
        return _unsorted_across(ctx, shard[1])
    if shard[0] == "long":
        r = shard[1]
        B = bpms(r)
        for n in (9, 10, 16, 17, 18, 33, 34, 65, 130):
            for gaps in ((1,), (2, 1), (7, 1, 1)):
                ticks, t = [], 0
                for i in range(n):
                    ticks.append(t)
                    t += gaps[i % len(gaps)]
                tempo = [(tk, B[(i * 2 + n) % len(B)]) for i, tk in enumerate(ticks)]
                strict = all(nn * r <= 3 * 10**10 for _, nn in tempo)
                # the same map with SPARSE events: consecutive events of a kind lie many tempo changes apart
                # (long hops from a non-zero hint), one sustain crosses all the changes in between
                early, late = ticks[2] + 0, ticks[-2]
                sp_sync = ["%d = B %d" % tn for tn in tempo] + ["0 = TS 4", "%d = TS 3" % early, "%d = TS 5" % late, "%d = TS 7" % (ticks[-1] + 2)]
                sp_ev = ['%d = E "%s"' % (t, w) for w in ("x", "section s", "lyric l") for t in (early, late, ticks[-1] + 2)]
                sp_a = ["%d = N 1 %d" % (early, late - early + 1), "%d = S 2 1" % early, "%d = E a" % early, "%d = N 2 0" % late, "%d = S 2 1" % late, "%d = E b" % late, "%d = N 3 0" % (ticks[-1] + 2)]
                sp_b = ["%d = N 7 0" % early, "%d = N 7 2" % (ticks[-1] + 1)]
                sp_text = mk(res=r, sync=sp_sync, events=sp_ev, tracks=[("ExpertSingle", sp_a), ("HardDrums", sp_b)])
                srcp = "STRICT = %r\nFIRST_CHANGE = 0\n" % strict + FAR_SRC.strip("\n")
                got_sp = e1.run_probe(e1.compile_probe(srcp), sp_text)
                ctx.case((r, tuple(tempo), "sparse"))
                ctx.evaluations += 20
                if isinstance(got_sp, list) and got_sp[:1] == ["raises"]:
                    ctx.hist["undecided(parse or query raises; owned by C01/C08/C15)"] += 1
                elif got_sp != "monotone":
                    e1.report(ctx, "monotone", sp_text, srcp, ["monotone"], got_sp, "resolution %d, tempo map of %d events, sparse events at ticks %d and %d" % (r, n, early, late), extra_case=dict(far=[strict, 0]))
                text = build(r, tempo)
                got = e1.run_probe(probes[strict], text)
                ctx.case((r, tuple(tempo)), sample=lambda: dict(resolution=r, tempo_events=n))
                ctx.evaluations += 3 * (ticks[-1] + 5)
                ctx.hist["long_maps"] += 1
                if isinstance(got, list) and got[:1] == ["raises"]:
                    ctx.hist["undecided(parse or query raises; owned by C01/C08/C15)"] += 1
                elif got != "monotone":
                    e1.report(ctx, "monotone", text, src(strict), ["monotone"], got, "resolution %d, tempo map of %d events" % (r, n), extra_case=dict(strict=strict))
        return
    r, i0, K = shard
    B = bpms(r)
    ctx.node()
    for k in range(1, K + 1):
        for ns in itertools.product(B, repeat=k - 1):
            for gaps in itertools.product(GAPS, repeat=k - 1):
                if ctx.out_of_time():
                    return
                ticks = [0]
                for g in gaps:
                    ticks.append(ticks[-1] + g)
                tempo = list(zip(ticks, (B[i0],) + ns))
                text = build(r, tempo)
                strict = all(n * r <= 3 * 10**10 for _, n in tempo)
                got = e1.run_probe(probes[strict], text)
                ctx.case((r, tuple(tempo)), nontrivial=k >= 2, sample=lambda: dict(resolution=r, tempo=[list(x) for x in tempo]))
                ctx.evaluations += 3 * (ticks[-1] + 5)
                ctx.hist["strict_required" if strict else "non_decreasing_only"] += 1
                if isinstance(got, list) and got[:1] == ["raises"]:
                    ctx.hist["undecided(parse or query raises; owned by C01/C08/C15)"] += 1
                elif got != "monotone":
                    e1.report(ctx, "monotone", text, src(strict), ["monotone"], got, "resolution %d tempo map %r" % (r, [list(x) for x in tempo]), extra_case=dict(strict=strict))


FAR_SRC = '''
def probe(c):
    us = lambda td: (td.days * 86400 + td.seconds) * 10**6 + td.microseconds
    be = c.sync_track.bpm_events
    at = {}
    evs = list(be) + list(c.sync_track.time_signature_events) + list(c.global_events_track.text_events)
    bad = []
    for dd in c.instrument_tracks.values():
        for tr in dd.values():
            evs += list(tr.note_events) + list(tr.star_power_events) + list(tr.track_events)
            for e in tr.note_events:
                if e.end_timestamp < e.timestamp:
                    bad.append(["note ends before it starts", e.tick])
                at.setdefault(e.end_tick, set()).add(us(e.end_timestamp))
    for e in evs:
        at.setdefault(e.tick, set()).add(us(e.timestamp))
    for t in list(at):
        at[t].add(us(be.timestamp_at_tick_no_optimize_return(t)))
    ticks = sorted(at)
    for t in ticks:
        if len(at[t]) != 1:
            bad.append(["equal ticks, different timestamps", t, sorted(at[t])])
    for a, b in zip(ticks, ticks[1:]):
        if max(at[a]) > min(at[b]) or (STRICT and a >= FIRST_CHANGE and max(at[a]) == min(at[b])):
            bad.append(["events out of order", a, sorted(at[a]), b, sorted(at[b])])
    return bad if bad else "monotone"
'''


def _far(ctx, r):
    """Tempo changes very far into the song (a slow first segment of 10^5 .. 10^9 ticks): absolute
    times of 10^9 .. 6*10^13 seconds, where float seconds no longer resolve microseconds."""
    slow = 1 if r == 1 else 1000
    for T in (10**5, 10**6, 3 * 10**7, 10**9):
        if T * 60 * 10**3 // (slow * r) >= 8 * 10**13:
            continue  # beyond the timedelta range
        for n1 in (3 * 10**10 // r, 120000, 10**9):
            for n2 in (n1, 1000, 3 * 10**10 // r):
                tempo = [(0, slow), (T, n1), (T + 3, n2), (T + 4, n1)]
                ticks = list(range(T - 3, T + 10))
                sync = ["%d = B %d" % tn for tn in tempo] + ["0 = TS 4"] + ["%d = TS 3" % t for t in ticks[::2]]
                ev = ['%d = E "x"' % t for t in ticks[::3]]
                a = ["%d = N %d %d" % (t, t % 5, 1 + t % 3) for t in ticks]
                b = ["%d = N 7 2" % t for t in ticks[::2]]
                text = mk(res=r, sync=sync, events=ev, tracks=[("ExpertSingle", a), ("HardDrums", b)])
                strict = all(n * r <= 3 * 10**10 for _, n in tempo[1:])
                srcp = "STRICT = %r\nFIRST_CHANGE = %d\n" % (strict, T) + FAR_SRC.strip("\n")
                got = e1.run_probe(e1.compile_probe(srcp), text)
                ctx.case((r, tuple(tempo)), sample=lambda: dict(resolution=r, tempo=[list(x) for x in tempo]))
                ctx.evaluations += 3 * len(ticks)
                ctx.hist["far_maps"] += 1
                if isinstance(got, list) and got[:1] == ["raises"]:
                    ctx.hist["undecided(parse or query raises; owned by C01/C08/C15)"] += 1
                elif got != "monotone":
                    e1.report(ctx, "monotone", text, srcp, ["monotone"], got, "resolution %d tempo map %r (tempo changes %d ticks into the song)" % (r, [list(x) for x in tempo], T), extra_case=dict(far=[strict, T]))


def _unsorted(ctx, r):
    """Charts whose body lines are not in tick order but which the parser accepts (no line steps back across
    a tempo change): the times of their events are still a monotone function of the tick."""
    import itertools as it

    B = bpms(r)
    for n0, n1, n2 in it.product(B[1:], repeat=3):
        tempo = [(0, n0), (10, n1), (20, n2)]
        for perm in ((1, 0, 2), (2, 1, 0), (0, 2, 1)):
            seg = [[0, 3, 7, 9], [10, 12, 15, 19], [20, 21, 26, 40]]
            order = []
            for sg in seg:  # shuffle INSIDE each tempo region only, keep the regions in order
                order += [sg[perm[0]], sg[3], sg[perm[1]], sg[perm[2]]]
            sync = ["%d = B %d" % tn for tn in tempo] + ["0 = TS 4"] + ["%d = TS 3" % t for t in order if t]
            ev = ['%d = E "x"' % t for t in order]
            a = ["%d = N %d %d" % (t, t % 5, 1 + t % 3) for t in order]
            b = ["%d = S 2 2" % t for t in order] + ["%d = E e" % t for t in order]
            text = mk(res=r, sync=sync, events=ev, tracks=[("ExpertSingle", a), ("HardDrums", b)])
            strict = all(n * r <= 3 * 10**10 for _, n in tempo)
            srcp = "STRICT = %r\nFIRST_CHANGE = 0\n" % strict + FAR_SRC.strip("\n")
            got = e1.run_probe(e1.compile_probe(srcp), text)
            ctx.case((r, tuple(tempo), perm), sample=lambda: dict(resolution=r, tempo=[list(x) for x in tempo], file_order=order))
            ctx.evaluations += 3 * len(order)
            ctx.hist["unsorted_accepted" if got == "monotone" else "unsorted_other"] += 1
            if isinstance(got, list) and got[:1] == ["raises"]:
                ctx.hist["undecided(parse or query raises; owned by C01/C08/C15)"] += 1
            elif got != "monotone":
                e1.report(ctx, "monotone", text, srcp, ["monotone"], got, "resolution %d tempo map %r, lines in file order %r" % (r, [list(x) for x in tempo], order), extra_case=dict(far=[strict, 0]))


def _unsorted_across(ctx, r):
    """Body lines that step back ACROSS a tempo change. The parser may reject such a chart (the pinned one does:
    counted as undecided) - but IF it hands out a chart, the times in it are monotone in the tick."""
    import itertools as it

    B = bpms(r)
    orders = ((0, 25, 12), (0, 12, 25, 3), (0, 40, 20), (0, 21, 19), (0, 20, 19), (0, 30, 10, 5), (0, 9, 26, 15, 40))
    for n0, n1, n2 in it.product(B[1:3] + B[-1:], repeat=3):
        tempo = [(0, n0), (10, n1), (20, n2)]
        strict = all(n * r <= 3 * 10**10 for _, n in tempo)
        srcp = "STRICT = %r\nFIRST_CHANGE = 0\n" % strict + FAR_SRC.strip("\n")
        pr = e1.compile_probe(srcp)
        for order in orders:
            srt = sorted(order)
            for kind in ("TS", "global", "N", "N-sustained", "S", "E"):
                o = lambda k: order if k == kind else srt  # noqa: E731
                sync = ["%d = B %d" % tn for tn in tempo] + ["0 = TS 4"] + ["%d = TS 3" % t for t in o("TS") if t]
                ev = ['%d = E "x"' % t for t in o("global")]
                a = ["%d = N %d %d" % (t, t % 5, 7 if kind == "N-sustained" else 0) for t in (o("N") if kind != "N-sustained" else o("N-sustained"))]
                b = ["%d = S 2 2" % t for t in o("S")] + ["%d = E e" % t for t in o("E")]
                text = mk(res=r, sync=sync, events=ev, tracks=[("ExpertSingle", a), ("HardDrums", b)])
                got = e1.run_probe(pr, text)
                ctx.case((r, tuple(tempo), order, kind), sample=lambda: dict(resolution=r, tempo=[list(x) for x in tempo], file_order=list(order), kind=kind))
                ctx.evaluations += 3 * len(order)
                if isinstance(got, list) and got[:1] == ["raises"]:
                    ctx.hist["stepping_back_across_a_tempo_change_rejected"] += 1
                elif got != "monotone":
                    e1.report(ctx, "monotone", text, srcp, ["monotone", ["raises", "ValueError"]], got, "resolution %d tempo map %r, %s lines in file order %r (stepping back across a tempo change) are ACCEPTED" % (r, [list(x) for x in tempo], kind, list(order)), extra_case=dict(far=[strict, 0]))
                else:
                    ctx.hist["stepping_back_across_a_tempo_change_accepted_and_monotone"] += 1


def _malformed(ctx, r):
    """Tempo data that C15 calls untrustworthy (no tempo at tick 0, repeated or decreasing tempo ticks). The pinned
    parser rejects every one of these charts (counted); a parser that hands out a chart for one of them still owes
    a non-decreasing time - 'within one chart' has no exception for charts that should not exist."""
    B = bpms(r)
    maps = []
    for first in (1, 2, 7):
        maps += [[(first, B[1])], [(first, B[1]), (first + 7, B[2])], [(first, B[-1]), (first + 1, B[0]), (first + 9, B[2])]]
    for n0, n1, n2 in ((B[1], B[2], B[0]), (B[2], B[2], B[1]), (B[0], B[-1], B[1])):
        maps += [[(0, n0), (5, n1), (5, n2)], [(0, n0), (0, n1), (6, n2)], [(0, n0), (6, n1), (0, n2)], [(0, n0), (9, n1), (4, n2)], [(0, n0), (4, n1), (9, n2), (9, n1), (12, n0)]]
    for tempo in maps:
        strict = all(n * r <= 3 * 10**10 for _, n in tempo)
        text = build(r, tempo)
        got = e1.run_probe(probes[strict], text)
        ctx.case(("malformed", r, tuple(tempo)), sample=lambda: dict(resolution=r, tempo_lines=[list(x) for x in tempo]))
        ctx.evaluations += 1
        if isinstance(got, list) and got[:1] == ["raises"]:
            ctx.hist["untrustworthy_tempo_data_rejected"] += 1
        elif got != "monotone":
            e1.report(ctx, "monotone", text, src(strict), ["monotone", ["raises", "ValueError"]], got, "resolution %d, tempo lines %r (untrustworthy tempo data) are ACCEPTED and the chart's time is not monotone" % (r, [list(x) for x in tempo]), extra_case=dict(strict=strict))
        else:
            ctx.hist["untrustworthy_tempo_data_accepted_and_monotone"] += 1


def _subus(ctx, r):
    """Sub-microsecond ticks: one or two tempo changes after segments of EVERY length 1..48, so that
    the fractional microsecond part of a completed segment sweeps the whole unit interval."""
    fast = (10**9, 999999999, 500000000, 3 * 10**10 // r * 4)
    for n0 in fast:
        for d in range(1, 49):
            for n1 in (n0, 120000, 10**9):
                for d2 in (None, 1, 3, 5):
                    tempo = [(0, n0), (d, n1)] + ([(d + d2, n0)] if d2 else [])
                    text = build(r, tempo)
                    strict = all(n * r <= 3 * 10**10 for _, n in tempo)
                    got = e1.run_probe(probes[strict], text)
                    ctx.case((r, tuple(tempo)), sample=lambda: dict(resolution=r, tempo=[list(x) for x in tempo]))
                    ctx.evaluations += 3 * (tempo[-1][0] + 5)
                    ctx.hist["sub_microsecond_maps"] += 1
                    if isinstance(got, list) and got[:1] == ["raises"]:
                        ctx.hist["undecided(parse or query raises; owned by C01/C08/C15)"] += 1
                    elif got != "monotone":
                        e1.report(ctx, "monotone", text, src(strict), ["monotone"], got, "resolution %d tempo map %r (sub-microsecond ticks)" % (r, [list(x) for x in tempo]), extra_case=dict(strict=strict))


def replay(case):
    if case.get("far"):
        srcp = "STRICT = %r\nFIRST_CHANGE = %d\n" % tuple(case["far"]) + FAR_SRC.strip("\n")
        return e1.replay_text_case(case, e1.compile_probe(srcp), "monotone", srcp)
    return e1.replay_text_case(case, probes[bool(case.get("strict"))], "monotone", PROBE_SRC)
