"""C05 - star-power membership is exact and half-open (engine E1)."""

from __future__ import annotations

from .. import envs, e1, impl
from ..chartgen import mk

ID = "C05"
LEVEL = "model_checking"
ENGINE = "E1 bounded-exhaustive generation-tree explorer"
RULE = (
    "every star-power list of <= K phrases (start 0..5, length 0..4, ordered by start, ties in both orders) x every "
    "non-empty set of note ticks within 0..8 (unsustained; and with notes held for 2 / 7 ticks or only the first held for 9, on the <= 1-phrase layer and the 6-tick slice of the 2-phrase layer), x placements of the S lines (before / after / merged with the N lines); "
    "distinct = distinct section text; non-trivial = at least one phrase and one note"
)
ASSUMPTIONS = [
    "star-power lists are ordered by start tick (the property's quantifier)",
    "phrases starting after tick 5 or longer than 4, and note ticks beyond 8, are not explored",
]

PROBE_SRC = '''
def probe(c):
    from chartparse.instrument import Instrument, Difficulty
    return [[e.tick, (e.star_power_data.star_power_event_index if e.star_power_data is not None else None)]
            for e in next(t for dd in c.instrument_tracks.values() for t in dd.values()).note_events]  # the only track
'''
probe = None
PHR = [(t, ln) for t in range(6) for ln in range(5)]
# tick magnitudes: around the int32 / uint32 / int64 limits and a round large value (fast tempo keeps times small)
BASES = (2**31 - 4, 2**32 - 5, 2**63 - 4, 10**12)
NT = 9


def setup():
    envs.enable(64)  # E1-M: every 64th case again under every environment of mc/envs.py
    global probe
    impl.load()
    probe = e1.compile_probe(PROBE_SRC)


def plan(tier, seed):
    shards = [("k1", -1)] + [("k1", i) for i in range(len(PHR))]
    for i in range(len(PHR)):
        shards.append(("k2", i, NT))
    if tier == "thorough":
        for i in range(len(PHR)):
            for j in range(len(PHR)):
                if PHR[i][0] <= PHR[j][0]:
                    shards.append(("k3", i, j))
    shards += [("long", n) for n in (8, 12, 20, 40, 300)]
    shards += [("k3ties", t, l1) for t in (0, 2) for l1 in range(5)]
    shards += [("foreign", i) for i in range(len(FOREIGN_S))]
    shards += [("headers", k) for k in range(8)]
    shards += [("big", bi, i) for bi in range(len(BASES)) for i in range(-1, len(PHR))]
    return dict(
        shards=shards,
        bounds=dict(tick_magnitudes="the <= 1-phrase layer (and a slice of the 2-phrase layer) repeated with every tick shifted by %r" % (BASES,), long_lists="lists of 8, 12, 20, 40, 300 phrases (adjacent / nested / zero-length interspersed / overlapping ladders) with a note on every tick", max_phrases=2 if tier == "quick" else 3, phrase_start="0..5", phrase_length="0..4", note_ticks="all non-empty subsets of 0..8"),
        budget_s=1200 if tier == "thorough" else 300,
    )


# special-phrase lines that are NOT star power (index other than the bare 2): they never form a phrase (C07), so
# membership is decided by the S 2 lines alone
FOREIGN_S = ("S 0", "S 1", "S 3", "S 64", "S 22", "S 02", "S 20", "S 12")

SUSTAIN = 0  # module switch: 0, or a length written on every note line (notes held across phrase ends)


def body_for(phr, notes, placement):
    S = ["%d = S 2 %d" % p for p in phr]
    N = ["%d = N 0 %d" % (t, SUSTAIN if (SUSTAIN >= 0 or i == 0) else 0) for i, t in enumerate(notes)]
    if SUSTAIN < 0:
        N = ["%d = N 0 %d" % (t, -SUSTAIN if i == 0 else 0) for i, t in enumerate(notes)]
    if placement == "before":
        return S + N
    if placement == "after":
        return N + S
    out, i = [], 0
    for t in notes:  # merged by tick, S before N on equal ticks
        while i < len(phr) and phr[i][0] <= t:
            out.append(S[i])
            i += 1
        out.append(N[notes.index(t)])
    return out + S[i:]


def check_list(ctx, phr, placements, nt=NT, base=0):
    ctx.node()
    if base:
        phr = tuple((t + base, ln) for t, ln in phr)
    for k in range(1, 1 << nt):
        notes = [i + base for i in range(nt) if k >> i & 1]
        expected = [[n, next((i for i, (t, ln) in enumerate(phr) if t <= n < t + ln), None)] for n in notes]
        for pl in placements:
            body = body_for(phr, notes, pl)
            text = mk(tracks={"ExpertSingle": body}) if not base else mk(res=960, sync=["0 = TS 4", "0 = B 1000000000"], tracks={"ExpertSingle": body})
            got = e1.run_probe(probe, text)
            ctx.case(text, nontrivial=bool(phr), sample=lambda: dict(body=body, expected=expected))
            ctx.evaluations += len(notes)
            if got != expected:
                e1.report(ctx, "membership", text, PROBE_SRC, [expected], got, "phrases %r, note ticks %r, S lines %s" % (list(phr), notes, pl))
        for _, idx in expected:
            ctx.hist["in_phrase" if idx is not None else "outside"] += 1


# tempo / resolution environments: membership depends on ticks only
ENVS = (dict(), dict(res=960, sync=["0 = TS 4", "0 = B 10000000000"]), dict(res=1, sync=["0 = TS 4", "0 = B 1000"] + ["%d = B %d" % (3 * i, 1000 + i) for i in range(1, 30)]))


def long_lists(n):
    yield "adjacent", [(3 * i, 3) for i in range(n)]
    yield "adjacent+zero", [(3 * (i // 2), 0 if i % 2 == 0 else 3) for i in range(n)]
    yield "nested", [(i, 2 * (n - i)) for i in range(n)]
    yield "outer+inner", [(0, 4 * n)] + [(4 * i + 1, 2) for i in range(n - 1)]
    yield "ladder", [(2 * i, 5) for i in range(n)]
    yield "sparse", [(7 * i, 1 + i % 3) for i in range(n)]
    yield "zero-first", [(0, 0)] * (n // 2) + [(i, 1) for i in range(n - n // 2)]


def run_shard(shard, ctx):
    kind = shard[0]
    if kind == "headers":
        # "a track": every one of the 40 section headers, the 12-phrase lists with a note on every tick
        from ..refmodel import TRACK_HEADERS

        for header in list(TRACK_HEADERS)[shard[1] :: 8]:
            for name, phr in long_lists(12):
                last = max(t + ln for t, ln in phr) + 2
                notes = list(range(last + 1))
                expected = [[n, next((i for i, (t, ln) in enumerate(phr) if t <= n < t + ln), None)] for n in notes]
                for pl in ("before", "merged") + (("padded-trailing", "padded-both") if header in ("ExpertSingle", "HardDrums") else ()):
                    body = body_for(phr, notes, "merged" if pl.startswith("padded") else pl)
                    if pl.startswith("padded"):  # blank padding around the lines (promised by C07)
                        body = [("\t " if pl == "padded-both" else "") + ln + (" " if i % 2 else "\t") for i, ln in enumerate(body)]
                    text = mk(tracks={header: body})
                    got = e1.run_probe(probe, text)
                    ctx.node()
                    ctx.case(text, sample=lambda: dict(header=header, layout=name, phrases=len(phr), notes=len(notes)))
                    ctx.evaluations += len(notes)
                    if got != expected:
                        e1.report(ctx, "membership", text, PROBE_SRC, [expected], got, "section [%s]: %d phrases (%s) %r, note ticks %r" % (header, len(phr), name, phr[:6], notes[:12]))
        return
    if kind == "long":
        for name, phr in long_lists(shard[1]):
            last = max(t + ln for t, ln in phr) + 2
            for notes in (list(range(last + 1)), list(range(0, last + 1, 2)), list(range(1, last + 1, 3)), [last - 1], [phr[-1][0]]):
                expected = [[n, next((i for i, (t, ln) in enumerate(phr) if t <= n < t + ln), None)] for n in notes]
                body = body_for(phr, notes, "before")
                for env in ENVS:
                    text = mk(tracks={"ExpertSingle": body}, **env)
                    got = e1.run_probe(probe, text)
                    ctx.case(text, sample=lambda: dict(layout=name, phrases=len(phr), notes=len(notes)))
                    ctx.evaluations += len(notes)
                    if got != expected:
                        e1.report(ctx, "membership", text, PROBE_SRC, [expected], got, "%d phrases (%s) %r, note ticks %r" % (len(phr), name, phr[:6], notes[:12]))
        return
    if kind == "big":
        base = BASES[shard[1]]
        if shard[2] < 0:
            check_list(ctx, (), ("merged",), 7, base)
        else:
            p = PHR[shard[2]]
            check_list(ctx, (p,), ("before",), 7, base)
            for q in PHR[:: 4]:
                if p[0] <= q[0]:
                    check_list(ctx, (p, q), ("before",), 5, base)
        return
    if kind == "foreign":
        word = FOREIGN_S[shard[1]]
        for phr in [()] + [(q,) for q in PHR[::3]] + [((1, 2), (4, 1)), ((0, 0), (3, 3))]:
            ctx.node()
            for fl in (((0, 9),), ((2, 3),), ((0, 2), (5, 4)), ((3, 0), (3, 4))):
                F = ["%d = %s %d" % (t, word, ln) for t, ln in fl]
                for k in range(1, 1 << 7):
                    notes = [i for i in range(7) if k >> i & 1]
                    expected = [[n, next((i for i, (t, ln) in enumerate(phr) if t <= n < t + ln), None)] for n in notes]
                    S = ["%d = S 2 %d" % q for q in phr]
                    N = ["%d = N 0 0" % t for t in notes]
                    for body in (F + S + N, S + F + N, sorted(F + S + N, key=lambda ln: int(ln.split()[0]))):
                        text = mk(tracks={"ExpertSingle": body})
                        got = e1.run_probe(probe, text)
                        ctx.case(text, nontrivial=True, sample=lambda: dict(body=body, expected=expected))
                        ctx.evaluations += len(notes)
                        if got != expected:
                            e1.report(ctx, "membership", text, PROBE_SRC, [expected], got, "phrases %r, lines %r that are not star power, note ticks %r" % (list(phr), F, notes))
        return
    global SUSTAIN
    if kind == "k1":
        for SUSTAIN in (0, 7, 2, -9):
            if shard[1] < 0:
                check_list(ctx, (), ("merged",))
            else:
                check_list(ctx, (PHR[shard[1]],), ("before", "after", "merged") if SUSTAIN == 0 else ("before",))
        SUSTAIN = 0
    elif kind == "k2":
        p = PHR[shard[1]]
        ctx.node()
        for q in PHR:
            if p[0] <= q[0]:
                if ctx.out_of_time():
                    return
                check_list(ctx, (p, q), ("before",), shard[2])
                for SUSTAIN in (7, 2, -9):
                    check_list(ctx, (p, q), ("before",), 6)
                SUSTAIN = 0
    elif kind == "k3ties":
        # three and four phrases that START ON ONE TICK, every combination of lengths (duplicates of an earlier
        # phrase, a longer one between two equal ones ...), optionally behind an earlier phrase
        _, t, l1 = shard
        for l2 in range(5):
            for l3 in range(5):
                ctx.node()
                check_list(ctx, ((t, l1), (t, l2), (t, l3)), ("before",), 7)
                if t:
                    check_list(ctx, ((0, 2), (t, l1), (t, l2), (t, l3)), ("before",), 7)
                if l3 in (1, 4):
                    check_list(ctx, ((t, l1), (t, l2), (t, l3), (t, l1)), ("before",), 7)
    elif kind == "k3":
        p, q = PHR[shard[1]], PHR[shard[2]]
        ctx.node(2)
        for r in PHR:
            if q[0] <= r[0]:
                if ctx.out_of_time():
                    return
                check_list(ctx, (p, q, r), ("before",))


def replay(case):
    return e1.replay_text_case(case, probe, "membership", PROBE_SRC)
