"""E1-M: environment invariance on a systematic slice of an E1 enumeration.

Every property checked through `e1.run_probe` observes something that the statement makes a function of the
chart text's CONTENT alone. Whatever the probe returns for a text must therefore be returned again when the
same content reaches the parser in another, equally legitimate way:

  crlf          the text with CRLF line endings                                   (C06)
  unknown-first an unrecognised section in front of everything                   (C06: reported and ignored)
  unknown-last  unrecognised sections (one with a look-alike title) at the end   (C06)
  by-path       the text written to a file and read with Chart.from_filepath      (C06)
  by-path-bom   the same with a UTF-8 byte-order mark                             (C06)
  by-path-str   the same, the path handed over as a plain str (README)           (C06)
  debug-logging DEBUG logging switched on (root and 'chartparse' loggers) while parsing (C17: no configuration of
                the process is an input of the parse)
  after-decoy   a different, valid chart (other resolution, tempo map, tracks, metadata) parsed immediately
                before in the same process                                        (C17)
  after-failed  a chart that fails to parse immediately before                    (C17)
  twice         the text itself parsed immediately before                         (C17)

The check is differential (the probe's result for the plain parse is the expectation), so it needs no model,
and it is enumerated, not sampled: every STRIDE-th executed case of the shard, in enumeration order, under every
transformation. A property module opts in with `envs.enable(stride)` in its `setup()`; `core` hands the shard's
context over before the shard runs. A difference is reported under the key `environment:<name>` with the
transformed case (text, entry mode, earlier parse) as the replayable artefact.
"""

from __future__ import annotations

import io
import os
import tempfile

from . import impl
from .chartgen import mk

STRIDE = 0
CTX = None
_n = 0

DECOY = mk(
    res=480,
    song_extra=['Name = "decoy"', "Offset = 3", "Player2 = rhythm"],
    sync=["0 = TS 3 3", "0 = B 90500", "7 = B 333333", "7 = TS 6"],
    events=['3 = E "section d"', '3 = E "lyric d"', '5 = E "d"'],
    tracks=[("ExpertSingle", ["0 = S 2 9", "0 = N 1 3", "0 = N 6 0", "2 = N 7 5", "5 = N 0 1", "5 = N 4 2", "9 = E solo", "200 = N 2 0", "300 = N 2 0", "300 = N 5 0"]), ("HardDrums", ["1 = N 2 0", "1 = S 2 1"])],
)
FAILING = mk(res=192, sync=["0 = TS 4", "0 = B 120000", "9 = B 100000", "9 = B 90000"], events=['1 = E "x"'], tracks=[("ExpertSingle", ["0 = N 0 0", "4 = N 1 2"])])
UNKNOWN_FIRST = "[Foo]\n{\n  0 = N 0 0\n  Resolution = 7\n  0 = B 1\n}\n"
UNKNOWN_LAST = "[ExpertSingle ]\n{\n  0 = B 1\n  0 = N 4 9\n}\n[Bar]\n{\n}\n"

WHAT = {
    "crlf": "the text with CRLF line endings",
    "unknown-first": "an unrecognised section in front of everything",
    "unknown-last": "unrecognised sections behind everything",
    "by-path": "read with Chart.from_filepath",
    "by-path-bom": "read with Chart.from_filepath from a file with a byte-order mark",
    "by-path-str": "read with Chart.from_filepath, the path given as a str (the README's spelling)",
    "debug-logging": "DEBUG logging switched on for the root logger and for 'chartparse' during the parse",
    "after-decoy": "a different valid chart parsed immediately before in the same process",
    "after-failed": "a chart that fails to parse parsed immediately before in the same process",
    "twice": "the same text parsed immediately before in the same process",
}
NAMES = ("crlf", "unknown-first", "unknown-last", "by-path", "by-path-bom", "by-path-str", "debug-logging", "after-decoy", "after-failed", "twice")


def enable(stride):
    global STRIDE
    STRIDE = int(os.environ.get("VERIF_ENV_STRIDE", stride))


def transformed(name, text):
    """(text', entry mode, earlier text or None); None when the transformation does not apply."""
    if name == "crlf":
        return None if "\r" in text else (text.replace("\n", "\r\n"), "file", None)
    if name == "unknown-first":
        return (UNKNOWN_FIRST + text, "file", None)
    if name == "unknown-last":
        return ((text if text.endswith("\n") else text + "\n") + UNKNOWN_LAST, "file", None)
    if name == "by-path":
        return (text, "path", None)
    if name == "by-path-bom":
        return (text, "path-bom", None)
    if name == "by-path-str":
        return (text, "path-str", None)
    if name == "debug-logging":
        return (text, "file-debug", None)
    if name == "after-decoy":
        return (text, "file", DECOY)
    if name == "after-failed":
        return (text, "file", FAILING)
    if name == "twice":
        return (text, "file", text)
    raise KeyError(name)


def parse_mode(text, mode, kw):
    Chart = impl.P.Chart
    if mode == "file":
        return Chart.from_file(io.StringIO(text), **kw)
    if mode == "file-debug":
        import logging

        lg = [logging.getLogger(), logging.getLogger("chartparse")]
        old = [x.level for x in lg]
        for x in lg:
            x.setLevel(logging.DEBUG)
        try:
            return Chart.from_file(io.StringIO(text), **kw)
        finally:
            for x, lv in zip(lg, old):
                x.setLevel(lv)
    fd, path = tempfile.mkstemp(suffix=".chart")
    try:
        with os.fdopen(fd, "wb") as f:
            f.write((b"\xef\xbb\xbf" if mode == "path-bom" else b"") + text.encode("utf-8"))
        from pathlib import Path

        return Chart.from_filepath(path if mode == "path-str" else Path(path), **kw)
    finally:
        os.unlink(path)


def probe_mode(probe, text, mode="file", warm=None, kw=None):
    kw = kw or {}
    if warm is not None:
        try:
            impl.P.Chart.from_file(io.StringIO(warm), **kw)
        except Exception:  # noqa: BLE001 - the earlier parse's own fate is not what is observed
            pass
    try:
        with impl.limited():
            return probe(parse_mode(text, mode, kw))
    except Exception as e:  # noqa: BLE001
        return ["raises", type(e).__name__]


SCRIPT = """import os, tempfile
text = {text!r}
mode, warm, kwargs = {mode!r}, {warm!r}, {kwargs}
acceptable = {acceptable!r}   # what the probe returns for the plain parse of the same content
{probe_src}
from chartparse.chart import Chart
if warm is not None:
    try:
        Chart.from_file(io.StringIO(warm), **kwargs)  # the earlier parse in this process
    except Exception:
        pass
try:
    if mode in ("file", "file-debug"):
        import logging
        lg = [logging.getLogger(), logging.getLogger("chartparse")]
        old = [x.level for x in lg]
        if mode == "file-debug":
            [x.setLevel(logging.DEBUG) for x in lg]
        try:
            c = Chart.from_file(io.StringIO(text), **kwargs)
        finally:
            [x.setLevel(lv) for x, lv in zip(lg, old)]
    else:
        from pathlib import Path
        fd, path = tempfile.mkstemp(suffix=".chart")
        with os.fdopen(fd, "wb") as f:
            f.write((b"\\xef\\xbb\\xbf" if mode == "path-bom" else b"") + text.encode("utf-8"))
        try:
            c = Chart.from_filepath(path if mode == "path-str" else Path(path), **kwargs)
        finally:
            os.unlink(path)
    got = probe(c)
except Exception as e:
    got = ["raises", type(e).__name__]
    print("exception:", repr(e)[:300])
print("acceptable:", acceptable)
print("got:       ", got)
sys.exit(0 if got in acceptable else 1)
"""


def after_probe(probe, text, got, kw):
    """Called by e1.run_probe after the plain parse: every STRIDE-th case is repeated under each environment."""
    global _n
    ctx = CTX
    if not STRIDE or ctx is None:
        return
    _n += 1
    if _n % STRIDE:
        return
    if kw and any(not isinstance(v, (list, tuple, type(None))) for v in kw.values()):
        return
    src = getattr(probe, "__src__", None)
    for name in NAMES:
        tr = transformed(name, text)
        if tr is None:
            continue
        t2, mode, warm = tr
        got2 = probe_mode(probe, t2, mode, warm, kw)
        ctx.evaluations += 1
        ctx.hist["environment_cases"] += 1
        if got2 != got:
            case = dict(text=t2, acceptable=[got], env=name, mode=mode, warm=warm, probe_src=src, plain_text=text)
            ctx.violation(
                "environment:" + name,
                case,
                "the same chart content gives another result in environment '%s' (%s): plain parse %s, there %s" % (name, WHAT[name], _short(got), _short(got2)),
                expected=got,
                observed=got2,
                script=(SCRIPT.format(text=t2, mode=mode, warm=warm, kwargs=repr(kw), acceptable=[got], probe_src=src.strip("\n")) if src and not kw else None),
            )
            return


def _short(x):
    s = repr(x)
    return s if len(s) <= 300 else s[:300] + "..."


def replay_case(case, probe_fallback=None):
    """For <property>.replay: re-run an environment case."""
    from . import e1

    probe = e1.compile_probe(case["probe_src"]) if case.get("probe_src") else probe_fallback
    got = probe_mode(probe, case["text"], case.get("mode", "file"), case.get("warm"))
    if got in case["acceptable"]:
        return []
    return [dict(key="environment:" + case["env"], msg="replayed case still fails: got %s" % _short(got), case=case)]


def after_model(ctx, key, text, got, want, drop):
    """The same slice for cases that compare a whole observation with the reference model (e1.check_model): the
    observation of the plain parse (which the model has just confirmed) must come back in every environment."""
    global _n
    if not STRIDE:
        return
    _n += 1
    if _n % STRIDE:
        return
    from . import e1

    for name in NAMES:
        tr = transformed(name, text)
        if tr is None:
            continue
        t2, mode, warm = tr
        if warm is not None:
            impl.model_outcome(warm, "file", want, drop)
        got2 = impl.model_outcome(t2, mode, want, drop)
        ctx.evaluations += 1
        ctx.hist["environment_cases"] += 1
        if got2 != got:
            from . import refmodel

            why = (refmodel.diff(got2[1], got[1]) or "") if got2[0] == "ok" and got[0] == "ok" else "outcome %s, plain parse %s" % (got2[:2] if got2[0] == "err" else "ok", got[:2] if got[0] == "err" else "ok")
            ctx.violation(
                "environment:" + name,
                dict(text=t2, via=mode, want=want, drop=list(drop), acceptable=[got], warm=warm, environment=name, plain_text=text),
                "the same chart content is observed differently in environment '%s' (%s): %s" % (name, WHAT[name], why),
                expected=got,
                observed=got2,
                script=e1.model_script(t2, [got], mode, want, drop, warm=warm),
            )
            return
