"""E1 helpers: a case is (chart text, probe, acceptable results).

The probe is python *source* defining `probe(c)` (chart -> JSON-like value). The same source is
compiled for the hot loop, for `--replay`, and pasted into the stand-alone replay script, so the
three can never disagree.
"""

from __future__ import annotations

import io

from . import envs, impl

SCRIPT = """text = {text!r}
kwargs = {kwargs}
acceptable = {acceptable!r}
{probe_src}
from chartparse.chart import Chart
try:
    got = probe(Chart.from_file(io.StringIO(text), **kwargs))
except Exception as e:
    got = ["raises", type(e).__name__]
    print("exception:", repr(e)[:300])
print("acceptable:", acceptable)
print("got:       ", got)
sys.exit(0 if got in acceptable else 1)
"""


def compile_probe(src):
    ns = {}
    exec(compile(src, "<probe>", "exec"), ns)  # noqa: S102 - our own constant source
    ns["probe"].__src__ = src  # travels into environment cases (mc/envs.py)
    return ns["probe"]


def run_probe(probe, text, **kw):
    try:
        with impl.limited():
            got = probe(impl.P.Chart.from_file(io.StringIO(text), **kw))
    except Exception as e:  # noqa: BLE001
        got = ["raises", type(e).__name__]
    if envs.STRIDE:
        envs.after_probe(probe, text, got, kw)  # E1-M: every STRIDE-th case again under every environment
    return got


def script(text, probe_src, acceptable, kwargs_src="{}"):
    return SCRIPT.format(text=text, kwargs=kwargs_src, acceptable=acceptable, probe_src=probe_src.strip("\n"))


def report(ctx, key, text, probe_src, acceptable, got, msg, extra_case=None, kwargs_src="{}"):
    case = dict(text=text, acceptable=acceptable, probe_src=probe_src)  # the probe travels with the case
    if extra_case:
        case.update(extra_case)
    sc = script(text, probe_src, acceptable, kwargs_src)
    if extra_case and "warm" in extra_case:
        # the case needs an EARLIER parse in the same process: the script performs it first
        sc = sc.replace("from chartparse.chart import Chart\n", "from chartparse.chart import Chart\nChart.from_file(io.StringIO(%r))  # the earlier parse\n" % extra_case["warm"], 1)
    ctx.violation(
        key,
        case,
        msg,
        expected=acceptable if len(acceptable) != 1 else acceptable[0],
        observed=got,
        script=sc,
    )


def replay_text_case(case, probe, key, probe_src, msg="replayed case still fails"):
    if "env" in case:
        return envs.replay_case(case, probe)
    if case.get("probe_src"):
        probe = compile_probe(case["probe_src"])
    if "warm" in case:
        run_probe(probe, case["warm"])
    got = run_probe(probe, case["text"])
    if got in case["acceptable"]:
        return []
    return [dict(key=key, msg="%s: got %r" % (msg, got), case=case)]


def gen_tree_nodes(sizes):
    """Nodes below the root of a complete product tree with the given level sizes."""
    n, acc = 0, 1
    for s in sizes:
        acc *= s
        n += acc
    return n


# ----------------------------------------------------------------------------------------------
# model-equality cases: whole observation vs reference model

MODEL_SCRIPT = """{observe_src}

text = {text!r}
via, want, drop, shape = {via!r}, {want!r}, {drop!r}, {shape!r}
acceptable = {acceptable!r}
warm = {warm!r}
if warm is not None:  # an earlier parse in the same process (its own fate is not what is observed)
    model_outcome(warm, "file", want, drop, shape)
got = model_outcome(text, via, want, drop, shape)
if got not in acceptable:
    print("expected one of:")
    for a in acceptable:
        print("  ", a)
    print("got:")
    print("  ", got)
sys.exit(0 if got in acceptable else 1)
"""


def model_acceptable(res, drop=()):
    """Outcomes acceptable for a refmodel.Result."""
    acc = [["ok", impl.drop_keys(res.obs, drop)]] if res.kind == "ok" else [["err", res.obs]]
    for a in sorted(res.alt_errors):
        acc.append(["err", a])
    return acc


def model_script(text, acceptable, via="file", want=None, drop=(), shape="model", warm=None):
    return MODEL_SCRIPT.format(observe_src=impl.OBSERVE_SRC, text=text, via=via, want=want, drop=list(drop), acceptable=acceptable, shape=shape, warm=warm)


def check_outcome(ctx, key, text, acceptable, via="file", want=None, msg="", drop=(), shape="full"):
    """Differential form: `acceptable` is a list of outcomes computed by the caller."""
    from . import refmodel

    got = impl.model_outcome(text, via, want, drop, shape)
    if got not in acceptable:
        why = ""
        if got[0] == "ok" and acceptable[0][0] == "ok":
            why = refmodel.diff(got[1], acceptable[0][1]) or ""
        else:
            why = "outcome %s, expected %s" % (got[:2] if got[0] == "err" else "ok", [a[:2] if a[0] == "err" else "ok" for a in acceptable])
        ctx.violation(
            key,
            dict(text=text, via=via, want=want, drop=list(drop), shape=shape, acceptable=acceptable),
            "%s: %s" % (msg, why),
            expected=acceptable[0],
            observed=got,
            script=model_script(text, acceptable, via, want, drop, shape),
        )
    return got


def check_model(ctx, key, text, res, via="file", want=None, msg="", drop=()):
    """Compare the real outcome with the model's. Returns the real outcome."""
    from . import refmodel

    got = impl.model_outcome(text, via, want, drop)
    acc = model_acceptable(res, drop)
    if got not in acc:
        why = ""
        if got[0] == "ok" and res.kind == "ok":
            why = refmodel.diff(got[1], acc[0][1]) or ""
        elif got[0] != acc[0][0]:
            why = "outcome %s %s, model says %s %s" % (got[0], got[1] if got[0] == "err" else "", acc[0][0], acc[0][1] if acc[0][0] == "err" else "")
        else:
            why = "error class %s, model says %s" % (got[1], [a[1] for a in acc])
        ctx.violation(
            key,
            dict(text=text, via=via, want=want, drop=list(drop), acceptable=acc),
            "%s: %s" % (msg, why),
            expected=acc[0],
            observed=got,
            script=model_script(text, acc, via, want, drop),
        )
    elif envs.STRIDE and via == "file":
        envs.after_model(ctx, key, text, got, want, drop)  # E1-M: every STRIDE-th case again under every environment
    return got


def replay_model_case(case, key):
    if case.get("warm") is not None:
        impl.model_outcome(case["warm"], "file", case.get("want"), case.get("drop", ()), case.get("shape", "model"))
    got = impl.model_outcome(case["text"], case.get("via", "file"), case.get("want"), case.get("drop", ()), case.get("shape", "model"))
    if got in case["acceptable"]:
        return []
    return [dict(key=key, msg="replayed case still differs from the model", case=case)]
