"""E1 helpers: a case is (chart text, probe, acceptable results).

The probe is python *source* defining `probe(c)` (chart -> JSON-like value). The same source is
compiled for the hot loop, for `--replay`, and pasted into the stand-alone replay script, so the
three can never disagree.
"""

from __future__ import annotations

import io

from . import impl

SCRIPT = """text = {text!r}
kwargs = {kwargs}
acceptable = {acceptable!r}
{probe_src}
from chartparse.chart import Chart
try:
    got = probe(Chart.from_file(io.StringIO(text), **kwargs))
except Exception as e:
    got = ["raises", type(e).__name__]
    print("exception:", repr(e)[:300])
print("acceptable:", acceptable)
print("got:       ", got)
sys.exit(0 if got in acceptable else 1)
"""


def compile_probe(src):
    ns = {}
    exec(compile(src, "<probe>", "exec"), ns)  # noqa: S102 - our own constant source
    return ns["probe"]


def run_probe(probe, text, **kw):
    try:
        return probe(impl.P.Chart.from_file(io.StringIO(text), **kw))
    except Exception as e:  # noqa: BLE001
        return ["raises", type(e).__name__]


def script(text, probe_src, acceptable, kwargs_src="{}"):
    return SCRIPT.format(text=text, kwargs=kwargs_src, acceptable=acceptable, probe_src=probe_src.strip("\n"))


def report(ctx, key, text, probe_src, acceptable, got, msg, extra_case=None, kwargs_src="{}"):
    case = dict(text=text, acceptable=acceptable)
    if extra_case:
        case.update(extra_case)
    ctx.violation(
        key,
        case,
        msg,
        expected=acceptable if len(acceptable) != 1 else acceptable[0],
        observed=got,
        script=script(text, probe_src, acceptable, kwargs_src),
    )


def replay_text_case(case, probe, key, probe_src, msg="replayed case still fails"):
    got = run_probe(probe, case["text"])
    if got in case["acceptable"]:
        return []
    return [dict(key=key, msg="%s: got %r" % (msg, got), case=case)]


def gen_tree_nodes(sizes):
    """Nodes below the root of a complete product tree with the given level sizes."""
    n, acc = 0, 1
    for s in sizes:
        acc *= s
        n += acc
    return n
