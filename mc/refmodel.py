"""Reference model: an independent, boring reading of the .chart format for the generated domain.

No code or regular expression of the package is used. Time is exact (fractions.Fraction, in
microseconds). Cursors, hints and memo tables do not exist here.

model(text, want=None) -> Result(kind, obs, alt_errors, warnings)
  kind == "ok":  obs is the expected observation *without* time fields (see strip_times)
  kind == "err": obs is the expected exception class name
  alt_errors: exception class names that are acceptable as well (DESIGN.md 3.2, unsorted bodies)
A line or structure outside the generated domain raises OutOfDomain (a generator bug, exit 2).
"""

from __future__ import annotations

from fractions import Fraction

DIFF = {"Easy": "EASY", "Medium": "MEDIUM", "Hard": "HARD", "Expert": "EXPERT"}
INSTR = {
    "Single": "GUITAR",
    "DoubleGuitar": "GUITAR_COOP",
    "DoubleBass": "BASS",
    "DoubleRhythm": "RHYTHM",
    "Keyboard": "KEYS",
    "Drums": "DRUMS",
    "GHLGuitar": "GHL_GUITAR",
    "GHLBass": "GHL_BASS",
    "GHLCoop": "GHL_COOP",
    "GHLRhythm": "GHL_RHYTHM",
}
TRACK_HEADERS = {d + i: (INSTR[i], DIFF[d]) for i in INSTR for d in DIFF}

STRING_FIELDS = {
    "Genre": "genre",
    "MediaType": "media_type",
    "Name": "name",
    "Artist": "artist",
    "Charter": "charter",
    "Album": "album",
    "Year": "year",
    "MusicStream": "music_stream",
    "GuitarStream": "guitar_stream",
    "RhythmStream": "rhythm_stream",
    "BassStream": "bass_stream",
    "DrumStream": "drum_stream",
    "Drum2Stream": "drum2_stream",
    "Drum3Stream": "drum3_stream",
    "Drum4Stream": "drum4_stream",
    "VocalStream": "vocal_stream",
    "KeysStream": "keys_stream",
    "CrowdStream": "crowd_stream",
}
INT_FIELDS = {
    "Resolution": "resolution",
    "Offset": "offset",
    "Difficulty": "difficulty",
    "PreviewStart": "preview_start",
    "PreviewEnd": "preview_end",
}
# documented defaults (Metadata field documentation)
DEFAULTS = dict(
    offset=0,
    player2="BASS",
    difficulty=0,
    preview_start=0,
    preview_end=0,
    genre="rock",
    media_type="cd",
    **{v: None for k, v in STRING_FIELDS.items() if k not in ("Genre", "MediaType")},
)

BLANKS = " \t"
DIGITS = "0123456789"


class OutOfDomain(Exception):
    pass


class Result:
    __slots__ = ("kind", "obs", "alt_errors", "warnings", "tempo", "resolution")

    def __init__(self, kind, obs, alt_errors=(), warnings=0, tempo=None, resolution=None):
        self.kind, self.obs, self.alt_errors, self.warnings = kind, obs, frozenset(alt_errors), warnings
        self.tempo, self.resolution = tempo, resolution

    def __repr__(self):
        return "Result(%s, %r, alt=%s, warnings=%d)" % (self.kind, self.obs, sorted(self.alt_errors), self.warnings)


def is_int(s):
    return s != "" and all(c in DIGITS for c in s)


# ----------------------------------------------------------------------------------------------
# framing


def split_sections(text):
    """-> list of (name, [body lines]) in file order. LF or CRLF; optional leading BOM ignored."""
    if text.startswith("﻿"):
        text = text[1:]
    raw = text.split("\n")
    if raw and raw[-1] == "":
        raw.pop()
    lines = [ln[:-1] if ln.endswith("\r") else ln for ln in raw]
    out, i, n = [], 0, len(lines)
    while i < n:
        h = lines[i]
        if not (len(h) >= 3 and h[0] == "[" and h[-1] == "]"):
            raise OutOfDomain("header expected: %r" % h)
        if i + 1 >= n or lines[i + 1] != "{":
            raise OutOfDomain("'{' expected after %r" % h)
        j = i + 2
        body = []
        while j < n and lines[j] != "}":
            body.append(lines[j])
            j += 1
        if j >= n:
            raise OutOfDomain("unterminated section %r" % h)
        out.append((h[1:-1], body))
        i = j + 1
    # a RECOGNISED title written twice is unspecified; unknown sections are reported and ignored whatever their
    # titles, so any number of them may share a title
    names = [n_ for n_, _ in out if n_ in ("Song", "SyncTrack", "Events") or n_ in TRACK_HEADERS]
    if len(set(names)) != len(names):
        raise OutOfDomain("duplicate section")
    return out


def lhs_rhs(line):
    """'<blank>* T = REST' -> (T, REST) with T a digit string, else None. Leading blanks only."""
    s = line.lstrip(BLANKS)
    k = s.find(" = ")
    if k <= 0 or not is_int(s[:k]):
        return None
    return s[:k], s[k + 3 :]


# ----------------------------------------------------------------------------------------------
# per-section line readers: return a datum or None (= skipped, one warning)


def read_sync_line(line):
    p = lhs_rhs(line)
    if p is None:
        return None
    t, rest = p
    w = rest.split(" ")
    if len(w) == 2 and w[0] == "B" and is_int(w[1]):
        return ("B", int(t), int(w[1]))
    if len(w) in (2, 3) and w[0] == "TS" and all(is_int(x) for x in w[1:]):
        return ("TS", int(t), int(w[1]), int(w[2]) if len(w) == 3 else None)
    if len(w) == 2 and w[0] == "A" and is_int(w[1]):
        return ("A", int(t), int(w[1]))
    return None


def read_event_line(line):
    p = lhs_rhs(line)
    if p is None:
        return None
    t, rest = p
    if not (len(rest) >= 4 and rest.startswith('E "') and rest.endswith('"')):
        return None
    text = rest[3:-1]
    if text.startswith("lyric "):
        return ("lyric", int(t), text[6:])
    if text.startswith("section "):
        return ("section", int(t), text[8:])
    if '"' in text:
        raise OutOfDomain("quoted text with inner quote and no keyword is unspecified: %r" % line)
    return ("text", int(t), text)


def read_track_line(line):
    p = lhs_rhs(line.rstrip(BLANKS))
    if p is None:
        return None
    t, rest = p
    w = rest.split(" ")
    if len(w) == 3 and w[0] == "N" and w[1] in tuple("01234567") and is_int(w[2]):
        return ("N", int(t), int(w[1]), int(w[2]))
    if len(w) == 3 and w[0] == "S" and w[1] == "2" and is_int(w[2]):
        return ("S", int(t), int(w[2]))
    if len(w) == 2 and w[0] == "E" and w[1] != "" and "\t" not in w[1]:
        return ("E", int(t), w[1])
    return None


# ----------------------------------------------------------------------------------------------
# time


def exact_us(tempo, resolution, tick):
    """Exact tempo-map time of `tick` in microseconds and the governing tempo index.
    tempo: [(tick, n)] strictly increasing from tick 0, n = thousandths of a BPM (> 0 on the path)."""
    t = Fraction(0)
    for i, (tk, n) in enumerate(tempo):
        nxt = tempo[i + 1][0] if i + 1 < len(tempo) else None
        if nxt is not None and nxt <= tick:
            t += Fraction((nxt - tk) * 60 * 10**9, n * resolution)
        else:
            return t + Fraction((tick - tk) * 60 * 10**9, n * resolution), i
    raise OutOfDomain("empty tempo map")


def governing(tempo, tick):
    g = None
    for i, (tk, _) in enumerate(tempo):
        if tk <= tick:
            g = i
    return g


# ----------------------------------------------------------------------------------------------
# sections


def model_song(body):
    md = dict(DEFAULTS)
    seen = set()
    for line in body:
        s = line.lstrip(BLANKS)
        k = s.find(" = ")
        if k <= 0:
            continue  # unknown lines in [Song] are ignored silently by design
        f, v = s[:k], s[k + 3 :]
        if f in seen:
            continue  # the first line of a field wins
        if f in STRING_FIELDS:
            if not (len(v) >= 3 and v[0] == '"' and v[-1] == '"'):
                raise OutOfDomain("string field value must be quoted and non-empty: %r" % line)
            md[STRING_FIELDS[f]] = v[1:-1]
        elif f in INT_FIELDS:
            if not is_int(v):
                raise OutOfDomain("int field value: %r" % line)
            md[INT_FIELDS[f]] = int(v)
        elif f == "Player2":
            if v not in ("bass", "rhythm"):
                raise OutOfDomain("Player2 value: %r" % line)
            md["player2"] = v.upper()
        else:
            continue
        seen.add(f)
    return md


class _Err(Exception):
    def __init__(self, cls):
        self.cls = cls


def _hint_walk(ticks, tempo, alt):
    """File-order events of one kind: the hint for an event is the governing index of its
    predecessor. If an event precedes that tempo event, rejection (ValueError) is acceptable."""
    h = 0
    for t in ticks:
        if tempo[h][0] > t:
            alt.add("ValueError")
            g = governing(tempo, t)
            h = g if g is not None else 0
        else:
            h = governing(tempo, t)


def _needs_zero(tempo, tick):
    g = governing(tempo, tick)
    return g is not None and tempo[g][1] == 0


def model_track(body, tempo, resolution, alt):
    notes_raw, phrases, tevents, skipped = [], [], [], 0
    for line in body:
        d = read_track_line(line)
        if d is None:
            skipped += 1
        elif d[0] == "N":
            notes_raw.append(d[1:])
        elif d[0] == "S":
            phrases.append((d[1], d[2]))
        else:
            tevents.append((d[1], d[2]))
    for t, _ in phrases:
        if _needs_zero(tempo, t):
            raise _Err("ValueError")
    for t, _ in tevents:
        if _needs_zero(tempo, t):
            raise _Err("ValueError")
    _hint_walk([t for t, _ in phrases], tempo, alt)
    _hint_walk([t for t, _ in tevents], tempo, alt)
    # group contiguous N lines of equal tick
    groups = []
    for t, idx, ln in notes_raw:
        if groups and groups[-1][0] == t:
            groups[-1][1].append((idx, ln))
        else:
            groups.append((t, [(idx, ln)]))
    ticks = [t for t, _ in groups]
    if ticks != sorted(ticks) or len(set(ticks)) != len(ticks):
        raise OutOfDomain("note ticks must be strictly increasing per group")
    thr = (resolution + 1) // 3  # resolution / 3 rounded to the nearest tick
    notes, prev = [], None
    for t, lines in groups:
        idxs = [i for i, _ in lines]
        lane_lines = [(i, ln) for i, ln in lines if i <= 4]
        is_open = 7 in idxs
        if is_open and (idxs[0] != 7 or lane_lines or idxs.count(7) != 1):
            raise OutOfDomain("open note mixed with lanes / flag before open line")
        if not is_open and not lane_lines:
            raise OutOfDomain("flags without a note")
        if len({i for i, _ in lane_lines}) != len(lane_lines):
            raise OutOfDomain("lane written twice in one tick")
        lanes = [0] * 5
        per = [None] * 5
        for i, ln in lane_lines:
            lanes[i] = 1
            per[i] = ln
        if is_open:
            sustain = lines[0][1]
            longest = sustain
        else:
            act = [x for x in per if x is not None]
            longest = max(act)
            sustain = act[0] if len(set(act)) == 1 else per
        tap, forced = 6 in idxs, 5 in idxs
        if _needs_zero(tempo, t) or _needs_zero(tempo, t + longest):
            raise _Err("ValueError")
        if tap:
            hopo = "TAP"
        elif prev is None:
            hopo = "STRUM"
        else:
            natural = sum(lanes) <= 1 and lanes != prev[1] and (t - prev[0]) <= thr
            hopo = "HOPO" if natural != forced else "STRUM"
        if forced and prev is None:
            alt.add("ValueError")  # DESIGN.md 3.2
            if not tap:
                hopo = "HOPO"
        sp = None
        for k, (pt, pl) in enumerate(phrases):
            if pt <= t < pt + pl:
                sp = k
                break
        notes.append(dict(tick=t, lanes=lanes, sustain=sustain, longest=longest, end_tick=t + longest, hopo=hopo, sp=sp))
        prev = (t, lanes)
    return (
        dict(
            notes=notes,
            phrases=[dict(tick=t, sustain=ln, end_tick=t + ln) for t, ln in phrases],
            events=[dict(tick=t, value=v) for t, v in tevents],
        ),
        skipped,
    )


def model(text, want=None):
    """want: None or a collection of (INSTRUMENT_NAME, DIFFICULTY_NAME)."""
    secs = split_sections(text)
    by_name = dict(secs)
    if not all(r in by_name for r in ("Song", "SyncTrack", "Events")):
        return Result("err", "ValueError")
    alt = set()
    warnings = 0
    try:
        md = model_song(by_name["Song"])
        if "resolution" not in md:
            return Result("err", "MissingRequiredField")
        res = md["resolution"]
        tempo, tsigs, anchors = [], [], []
        for line in by_name["SyncTrack"]:
            d = read_sync_line(line)
            if d is None:
                warnings += 1
            elif d[0] == "B":
                tempo.append((d[1], d[2]))
            elif d[0] == "TS":
                tsigs.append(d[1:])
            else:
                anchors.append(d[1:])
        if res <= 0:
            raise _Err("ValueError")
        if not tempo or tempo[0][0] != 0:
            raise _Err("ValueError")
        for (a, na), (b, _) in zip(tempo, tempo[1:]):
            if b <= a or na == 0:
                raise _Err("ValueError")
        if not tsigs or tsigs[0][0] != 0:
            raise _Err("ValueError")
        for t, _, _ in tsigs:
            if _needs_zero(tempo, t):
                raise _Err("ValueError")
        _hint_walk([t for t, _, _ in tsigs], tempo, alt)
        sync = dict(
            resolution=res,
            bpm=[dict(tick=t, bpm=float(n / 1000).hex()) for t, n in tempo],
            time_signatures=[dict(tick=t, upper=u, lower=(4 if l is None else 2**l)) for t, u, l in tsigs],
            anchors=[dict(tick=t, us=u) for t, u in anchors],
        )
        g = dict(text=[], section=[], lyric=[])
        for line in by_name["Events"]:
            d = read_event_line(line)
            if d is None:
                warnings += 1
            else:
                g[d[0]].append(dict(tick=d[1], value=d[2]))
        for k in g:
            for e in g[k]:
                if _needs_zero(tempo, e["tick"]):
                    raise _Err("ValueError")
            _hint_walk([e["tick"] for e in g[k]], tempo, alt)
        tracks = {}
        for name, body in secs:
            if name in TRACK_HEADERS:
                ins, dif = TRACK_HEADERS[name]
                if want is not None and (ins, dif) not in want:
                    continue
                tr, sk = model_track(body, tempo, res, alt)
                warnings += sk
                tr.update(instrument=ins, difficulty=dif, header_tag=name)
                tracks["%s/%s" % (ins, dif)] = tr
            elif name not in ("Song", "SyncTrack", "Events"):
                warnings += 1
    except _Err as e:
        return Result("err", e.cls)
    obs = dict(
        metadata=md,
        sync=sync,
        globals=g,
        tracks=tracks,
        instruments=sorted({k.split("/")[0] for k in tracks}),
    )
    return Result("ok", obs, alt, warnings, tempo=tempo, resolution=res)


# ----------------------------------------------------------------------------------------------
# comparison helpers

def diff(a, b, path=""):
    """First difference between two plain structures, as a short string (None if equal)."""
    if type(a) is not type(b) and not (isinstance(a, (int, float)) and isinstance(b, (int, float))):
        return "%s: %r != %r" % (path or "/", a, b)
    if isinstance(a, dict):
        for k in sorted(set(a) | set(b)):
            if k not in a:
                return "%s/%s: missing in first" % (path, k)
            if k not in b:
                return "%s/%s: missing in second" % (path, k)
            d = diff(a[k], b[k], path + "/" + str(k))
            if d:
                return d
        return None
    if isinstance(a, list):
        if len(a) != len(b):
            return "%s: length %d != %d" % (path or "/", len(a), len(b))
        for i, (x, y) in enumerate(zip(a, b)):
            d = diff(x, y, "%s[%d]" % (path, i))
            if d:
                return d
        return None
    return None if a == b else "%s: %r != %r" % (path or "/", a, b)
