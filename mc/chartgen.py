"""Builders for chart text (the generated domain of DESIGN.md 2.2)."""

from __future__ import annotations

IND = "  "

DIFFICULTIES = ("Easy", "Medium", "Hard", "Expert")
INSTRUMENTS = (
    "Single",
    "DoubleGuitar",
    "DoubleBass",
    "DoubleRhythm",
    "Keyboard",
    "Drums",
    "GHLGuitar",
    "GHLBass",
    "GHLCoop",
    "GHLRhythm",
)
HEADERS = tuple(d + i for i in INSTRUMENTS for d in DIFFICULTIES)  # the 40 track headers

DEFAULT_SYNC = ("0 = TS 4", "0 = B 120000")


RAW = "\0"  # a body line starting with RAW is written without indentation (and without the marker)


def section(name, body, nl="\n", ind=IND):
    return nl.join(["[" + name + "]", "{"] + [(s[1:] if s.startswith(RAW) else ind + s) for s in body] + ["}"]) + nl


def sections(secs, nl="\n", ind=IND):
    """secs: iterable of (name, body lines) in file order."""
    return "".join(section(n, b, nl, ind) for n, b in secs)


def mk(res=192, sync=DEFAULT_SYNC, events=(), tracks=None, song_extra=(), nl="\n", extra=(), song=None):
    """A complete chart. `tracks`: dict or list of (header, body). `extra`: sections appended."""
    if song is None:
        song = (["Resolution = %s" % res] if res is not None else []) + list(song_extra)
    secs = [("Song", song), ("SyncTrack", list(sync)), ("Events", list(events))]
    if tracks:
        secs += list(tracks.items()) if isinstance(tracks, dict) else list(tracks)
    secs += list(extra)
    return sections(secs, nl)


# the 32 lane combinations: index m -> tuple of active lanes; m == 0 is the open note
COMBOS = tuple(tuple(i for i in range(5) if m >> i & 1) for m in range(32))


def note_lines(tick, combo, flags=(), sustain=0, order="asc"):
    """Lines of one tick in Moonscraper order: lane lines (or the open line), then flag lines.
    sustain: int or dict lane->length."""
    if not combo:
        s = sustain if isinstance(sustain, int) else 0
        L = ["%d = N 7 %d" % (tick, s)]
    else:
        lanes = list(combo)
        if order == "desc":
            lanes = lanes[::-1]
        elif order == "rot" and len(lanes) > 1:
            lanes = lanes[1:] + lanes[:1]
        L = ["%d = N %d %d" % (tick, i, sustain if isinstance(sustain, int) else sustain[i]) for i in lanes]
    return L + ["%d = N %d 0" % (tick, f) for f in flags]


def lanes_vector(combo):
    return [int(i in combo) for i in range(5)]


# text that a normalisation, case folding or width folding would change (NFC/NFD/NFKC, lower/upper/casefold);
# a parser that stores values verbatim keeps every one of them
UNICODE_TRAPS = (
    "cafe\u0301",  # e + combining acute (NFC composes)
    "caf\u00e9",  # precomposed (NFD decomposes)
    "\u1112\u1161\u11ab",  # Hangul jamo (NFC composes to one syllable)
    "\ud55c",  # the syllable (NFD decomposes)
    "\u212bngstr\u00f6m \u2126",  # ANGSTROM SIGN, OHM SIGN (singletons under NFC)
    "\uf900",  # CJK compatibility ideograph
    "\ufb01n",  # fi ligature (NFKC)
    "\u2460\u00b2",  # circled one, superscript two (NFKC)
    "\uff46\uff55\uff4c\uff4c",  # fullwidth letters
    "I\u0307 \u0130 \u00df \u1e9e \u01c5",  # case-folding traps
    "\u0041\u030a\u0323",  # combining marks in non-canonical order
)

# text that is harmless as DATA but special as a TEMPLATE: %-formatting, str.format, re.sub replacement strings,
# backslash escapes - wherever a value or a whole line is spliced into a message or a pattern
FORMAT_TRAPS = ("%", "100%", "%d", "%s", "%(x)s", "%%", "{0}", "{}", "{x}", "{{", "}", "\\", "\\n", "\\1", "\\g<0>", "$1", "${x}", "\\d+", "(?P<x>", "[a-", "*")


def song_envs(res):
    """[Song] bodies that all say `Resolution = res` and nothing else about timing: free-text values that quote
    other fields' lines (a value is data, never a field line), numeric fields with values different from the
    resolution, the Resolution line first / last / in the middle. Every chart property that depends on the
    resolution must be the same under all of them."""
    r = "Resolution = %d" % res
    other = 1080 if res != 1080 else 960
    return (
        ['Name = "Resolution = %d"' % other, r],
        [r, 'Name = "Resolution = %d"' % other],
        ['Name = "my Resolution = %d"' % other, 'Charter = "Offset = 7"', r, 'Album = "  Resolution = 3"'],
        ["Offset = %d" % other, "Difficulty = %d" % (other + 1), r, "PreviewStart = 3", "PreviewEnd = %d" % (other + 2)],
        ['Artist = "a"', "Player2 = bass", r, 'MusicStream = "Resolution = 5.ogg"', 'Genre = "Resolution"', 'Year = ", Resolution = 9"'],
        ['MediaType = "Resolution = \\"%d\\""' % other, 'Name = "x = y = Resolution = %d"' % other, r, "Offset = 0"],
    )

# text that looks like the start of a remark in other formats: inside a quoted value it is data
COMMENT_TRAPS = ("Alice // Bob", "a //", "a // b // c", "http://x.org/y // z", "x /* y */ z", "a # b", "a #", "a ; b", "a -- b", "a \\ b", "say \"hi\" // really", "a <!-- b -->", "x // \"y\"", "1 // 2", "a\t// b", "a ' b", "a ` b")
