"""Builders for chart text (the generated domain of DESIGN.md 2.2)."""

from __future__ import annotations

IND = "  "

DIFFICULTIES = ("Easy", "Medium", "Hard", "Expert")
INSTRUMENTS = (
    "Single",
    "DoubleGuitar",
    "DoubleBass",
    "DoubleRhythm",
    "Keyboard",
    "Drums",
    "GHLGuitar",
    "GHLBass",
    "GHLCoop",
    "GHLRhythm",
)
HEADERS = tuple(d + i for i in INSTRUMENTS for d in DIFFICULTIES)  # the 40 track headers

DEFAULT_SYNC = ("0 = TS 4", "0 = B 120000")


RAW = "\0"  # a body line starting with RAW is written without indentation (and without the marker)


def section(name, body, nl="\n", ind=IND):
    return nl.join(["[" + name + "]", "{"] + [(s[1:] if s.startswith(RAW) else ind + s) for s in body] + ["}"]) + nl


def sections(secs, nl="\n", ind=IND):
    """secs: iterable of (name, body lines) in file order."""
    return "".join(section(n, b, nl, ind) for n, b in secs)


def mk(res=192, sync=DEFAULT_SYNC, events=(), tracks=None, song_extra=(), nl="\n", extra=(), song=None):
    """A complete chart. `tracks`: dict or list of (header, body). `extra`: sections appended."""
    if song is None:
        song = (["Resolution = %s" % res] if res is not None else []) + list(song_extra)
    secs = [("Song", song), ("SyncTrack", list(sync)), ("Events", list(events))]
    if tracks:
        secs += list(tracks.items()) if isinstance(tracks, dict) else list(tracks)
    secs += list(extra)
    return sections(secs, nl)


# the 32 lane combinations: index m -> tuple of active lanes; m == 0 is the open note
COMBOS = tuple(tuple(i for i in range(5) if m >> i & 1) for m in range(32))


def note_lines(tick, combo, flags=(), sustain=0, order="asc"):
    """Lines of one tick in Moonscraper order: lane lines (or the open line), then flag lines.
    sustain: int or dict lane->length."""
    if not combo:
        s = sustain if isinstance(sustain, int) else 0
        L = ["%d = N 7 %d" % (tick, s)]
    else:
        lanes = list(combo)
        if order == "desc":
            lanes = lanes[::-1]
        elif order == "rot" and len(lanes) > 1:
            lanes = lanes[1:] + lanes[:1]
        L = ["%d = N %d %d" % (tick, i, sustain if isinstance(sustain, int) else sustain[i]) for i in lanes]
    return L + ["%d = N %d 0" % (tick, f) for f in flags]


def lanes_vector(combo):
    return [int(i in combo) for i in range(5)]
