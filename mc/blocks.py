"""Block-boundary sweep (a scale layer shared by C07-C10).

A reader that works block-wise (8 KiB, 64 KiB, 1 MiB) treats the characters next to a block boundary
differently from all others. The sweep pads the chart (a long value in front of the section under
test) so that character index B of the text falls on EVERY character of that section in turn -
every line break, every token, the braces - for each block size B, and requires the parsed result
to equal that of the un-padded chart (everything but the padded metadata value).
"""

from __future__ import annotations

from . import e1, impl

BLOCKS = (8192, 65536, 1 << 20)


def sweep(ctx, key, build, section_name, blocks=BLOCKS, stride=1, vias=("file",), part=0, parts=1, drop=("metadata",)):
    """build(pad) -> chart text in which `pad` >= 1 filler characters precede the section `section_name`."""
    text0 = build(1)
    start = text0.index("[%s]" % section_name)
    end = text0.index("\n}", start) + 3
    ref = impl.model_outcome(text0, "file", None, drop, "full")
    if ref[0] != "ok":
        # the un-padded chart is well-formed by construction: its rejection is the code's doing, not the harness's
        from . import refmodel

        ctx.case(("blocks", section_name, "unpadded"))
        ctx.evaluations += 1
        e1.check_model(ctx, key, text0, refmodel.model(text0), msg="the un-padded chart of the block sweep (well-formed) is not accepted", drop=drop)
        return 0
    n = 0
    for B in blocks:
        for o in range(start + part, end + 1, parts * stride):
            pad = 1 + B - o
            if pad < 1:
                continue
            text = build(pad)
            assert len(text) > B and text[B] == text0[o]
            for via in vias:
                ctx.node()
                ctx.case(("blocks", section_name, B, o, via), sample=lambda: dict(section=section_name, block=B, boundary_falls_on_character=o - start, characters=len(text)))
                ctx.evaluations += 1
                ctx.hist["block_%d" % B] += 1
                n += 1
                e1.check_outcome(ctx, key, text, [ref], via, None, "chart of %d characters: character %d (a multiple of the block size %d) is character %d of [%s] (%r): the parsed result differs from the un-padded chart's" % (len(text), B, B, o - start, section_name, text0[max(start, o - 12) : o + 12]), drop=drop)
    return n
