"""Runner shared by every property check.

Contract (DESIGN.md 2.3):
  exit 0  property held on everything explored (KNOWN-FINDING lines may be printed)
  exit 1  `VIOLATION property=<id> replay=<path>` printed for a violation not listed as a finding
  exit 2  the check itself is broken (harness fault); never used for what the code under test did

Every run rewrites evidence/<id>.json.  Nothing here samples: property modules hand over *complete*
enumerations cut into shards; the runner executes every shard on a fork pool and folds the results.
"""

from __future__ import annotations

import argparse
import collections
import faulthandler
import hashlib
import json
import multiprocessing
import os
import sys
import time
import traceback

VERIF = os.path.dirname(os.path.dirname(os.path.abspath(__file__)))
REPO = os.environ.get("VERIF_REPO", "/repo")
EVIDENCE_DIR = os.environ.get("VERIF_EVIDENCE_DIR") or os.path.join(VERIF, "evidence")  # scratch runs redirect it
REPLAY_DIR = os.environ.get("VERIF_REPLAY_DIR") or os.path.join(VERIF, "replays")
NPROC = int(os.environ.get("VERIF_JOBS", str(min(16, os.cpu_count() or 1))))

LEVELS = ("exploration", "fault_enumeration", "model_checking", "proof", "translation_validation", "other")


if hasattr(sys, "set_int_max_str_digits"):
    sys.set_int_max_str_digits(0)  # the harness formats whatever the code under test decoded, however large


class HarnessFault(Exception):
    """Something is wrong with the check itself (exit 2)."""


# --------------------------------------------------------------------------------------------
# package loading


def ensure_pkg_on_path():
    if not sys.path or sys.path[0] != REPO:
        sys.path.insert(0, REPO)


def pkg_dir():
    return os.path.join(REPO, "chartparse") + os.sep


# --------------------------------------------------------------------------------------------
# per-shard accumulator


class Ctx:
    """Counters of one shard. All numbers in the evidence are sums of these."""

    MAX_VIOL = 4
    MAX_SAMPLES = 2

    def __init__(self, shard_index, deadline):
        self.shard_index = shard_index
        self.deadline = deadline
        self.nodes = 0  # generation-tree nodes / graph states contributed by this shard
        self.edges = 0  # generation-tree edges / graph transitions
        self.evaluations = 0  # oracle comparisons
        self.executions = 0  # runs of the real implementation
        self.nontrivial = 0
        self._seen = set()
        self.hist = collections.Counter()
        self.samples = []
        self.violations = []
        self.capped = False
        self.extra = {}
        self._case_no = 0
        self._tick = 0

    # a node of the generation tree (and the edge leading to it)
    def node(self, n=1):
        self.nodes += n
        self.edges += n

    def case(self, ident, nontrivial=True, sample=None):
        """Register one executed case; `ident` identifies it (hashed) for the distinct count."""
        self._case_no += 1
        self.executions += 1
        self.nodes += 1  # the executed case is a leaf of the generation tree
        self.edges += 1
        if nontrivial:
            h = hash(ident)
            if h not in self._seen:
                self._seen.add(h)
                self.nontrivial += 1
        if sample is not None and len(self.samples) < self.MAX_SAMPLES:
            self.samples.append(sample() if callable(sample) else sample)

    def violation(self, key, case, msg, expected=None, observed=None, script=None):
        """Record a violation. `key` identifies what fails (used by the known-findings filter),
        `case` is the JSON-able input replayed by `--replay`, `script` an optional stand-alone
        python source asserting the property on this one case."""
        self.hist["violations"] += 1
        if len(self.violations) < self.MAX_VIOL:
            self.violations.append(
                dict(
                    key=key,
                    case=case,
                    msg=msg if len(msg) <= 4000 else msg[:4000] + " ...",
                    expected=_jsonable(expected),
                    observed=_jsonable(observed),
                    script=script,
                    order=(self.shard_index, self._case_no),
                )
            )

    def out_of_time(self):
        self._tick += 1
        if self._tick & 63:
            return self.capped
        if time.time() > self.deadline:
            self.capped = True
        return self.capped

    def result(self):
        return dict(
            shard=self.shard_index,
            nodes=self.nodes,
            edges=self.edges,
            evaluations=self.evaluations,
            executions=self.executions,
            nontrivial=self.nontrivial,
            hist=dict(self.hist),
            samples=self.samples,
            violations=self.violations,
            capped=self.capped,
            extra=self.extra,
        )


def _shrink(x):
    """Integers of more than 400 digits (a changed decoder can produce 2**99999) are replaced by a short description."""
    if isinstance(x, int) and not isinstance(x, bool) and x.bit_length() > 1330:
        return "<integer of %d bits>" % x.bit_length()
    if isinstance(x, (list, tuple)):
        return [_shrink(v) for v in x]
    if isinstance(x, dict):
        return {k: _shrink(v) for k, v in x.items()}
    return x


def _jsonable(x):
    x = _shrink(x)
    try:
        json.dumps(x)
        return x
    except (TypeError, ValueError):
        return repr(x)[:4000]


# --------------------------------------------------------------------------------------------
# fork pool

_PROP = None
_DEADLINE = None


GRACE_S = float(os.environ.get("VERIF_GRACE_S", "300"))  # a shard still running this long after the budget is stuck


def _worker(args):
    idx, shard = args
    ctx = Ctx(idx, _DEADLINE)
    # watchdog: shards poll ctx.out_of_time() between cases; one that is still running GRACE_S after the budget sits
    # in a call that does not return (a non-terminating loop in the code under test or in the harness). Dump where,
    # and die: the parent reports a harness fault (exit 2) instead of hanging for ever.
    faulthandler.dump_traceback_later(max(1.0, _DEADLINE - time.time()) + GRACE_S, exit=True)
    from . import envs

    envs.CTX = ctx  # E1-M (mc/envs.py): environment cases of this shard are counted and reported through its context
    try:
        _PROP.run_shard(shard, ctx)
    except HarnessFault as e:
        return dict(fault="HarnessFault: %s" % e, shard=idx)
    except BaseException:
        return dict(fault=traceback.format_exc(), shard=idx)
    finally:
        faulthandler.cancel_dump_traceback_later()
    return ctx.result()


def run_shards(prop, shards, budget_s):
    """Execute every shard; returns merged result dict."""
    global _PROP, _DEADLINE
    _PROP = prop
    _DEADLINE = time.time() + budget_s
    items = list(enumerate(shards))
    if not items:
        raise HarnessFault("no shards generated")
    results = []
    if NPROC <= 1 or len(items) == 1:
        results = [_worker(it) for it in items]
    else:
        from concurrent.futures import ProcessPoolExecutor
        from concurrent.futures.process import BrokenProcessPool

        ctxm = multiprocessing.get_context("fork")
        try:
            with ProcessPoolExecutor(min(NPROC, len(items)), mp_context=ctxm) as pool:
                results = list(pool.map(_worker, items))
        except BrokenProcessPool:
            raise HarnessFault("a worker process died (killed, or stuck in one call for more than %d s past the budget: see the traceback above); nothing is concluded from this run" % GRACE_S)
    results.sort(key=lambda r: r["shard"])
    for r in results:
        if "fault" in r:
            raise HarnessFault("shard %d: %s" % (r["shard"], r["fault"]))
    m = dict(
        nodes=1,
        edges=0,
        evaluations=0,
        executions=0,
        nontrivial=0,
        hist=collections.Counter(),
        samples=[],
        violations=[],
        capped_shards=[],
        extra={},
        shards=len(items),
    )
    for r in results:
        for k in ("nodes", "edges", "evaluations", "executions", "nontrivial"):
            m[k] += r[k]
        m["hist"].update(r["hist"])
        if len(m["samples"]) < 3:
            m["samples"].extend(r["samples"][: 3 - len(m["samples"])])
        m["violations"].extend(r["violations"])
        if r["capped"]:
            m["capped_shards"].append(r["shard"])
        for k, v in r["extra"].items():
            if isinstance(v, (int, float)):
                m["extra"][k] = m["extra"].get(k, 0) + v
            else:
                m["extra"].setdefault(k, v)
    m["violations"].sort(key=lambda v: tuple(v["order"]))
    return m


# --------------------------------------------------------------------------------------------
# the same shards in another kind of interpreter


def child_shards_main():
    """Entry of the child started by run_in_other_interpreter: argv = <module> <json shards>."""
    import importlib

    mod = importlib.import_module(sys.argv[1])
    shards = json.loads(sys.argv[2])
    ensure_pkg_on_path()
    mod.setup()
    from . import envs

    envs.STRIDE = 0  # the environments are the parent's business
    ctx = Ctx(0, time.time() + 900)
    envs.CTX = ctx
    for sh in shards:
        mod.run_shard(tuple(sh), ctx)
    r = ctx.result()
    print("\n@@RESULT@@" + json.dumps(dict(violations=[dict(key=v["key"], case=_jsonable(v["case"]), msg=v["msg"]) for v in r["violations"]], evaluations=r["evaluations"], executions=r["executions"], nodes=r["nodes"], optimize=sys.flags.optimize)))


def run_in_other_interpreter(ctx, prop, shards, flags, what):
    """Runs `shards` of the property module `prop` again in a fresh interpreter started with `flags` (-O: asserts
    and `if __debug__:` blocks stripped; -OO: docstrings too). 'A fresh interpreter' of whatever kind is part of every
    statement's "for all client programs"; the enumeration and the oracle are the very same code as in the parent.
    Counts are merged into ctx; a violation is reported with the flags in its key and case."""
    import subprocess

    code = "import sys; sys.path.insert(0, %r); from mc import core; core.child_shards_main()" % VERIF
    env = dict(os.environ, VERIF_REPO=REPO, PYTHONHASHSEED="0", PYTHONDONTWRITEBYTECODE="1")
    env.pop("PYTHONOPTIMIZE", None)
    p = subprocess.run(["/venv/bin/python"] + list(flags) + ["-c", code, prop.__name__, json.dumps([list(s) for s in shards])], capture_output=True, text=True, env=env, timeout=1500)
    out = [ln for ln in p.stdout.splitlines() if ln.startswith("@@RESULT@@")]
    if p.returncode != 0 or not out:
        raise HarnessFault("child interpreter %s failed for %s: %s" % (" ".join(flags), prop.__name__, p.stderr[-600:]))
    r = json.loads(out[-1][len("@@RESULT@@"):])
    ctx.evaluations += r["evaluations"]
    ctx.executions += r["executions"]
    ctx.nodes += r["nodes"]
    ctx.edges += r["nodes"]
    ctx.hist["cases_in_interpreter(%s)" % " ".join(flags)] += r["executions"]
    for v in r["violations"]:
        case = dict(v["case"]) if isinstance(v["case"], dict) else dict(case=v["case"])
        case["interpreter_flags"] = list(flags)
        ctx.violation("%s:%s" % ("".join(flags), v["key"]), case, "in a fresh interpreter started with %s (%s): %s" % (" ".join(flags), what, v["msg"]))


def replay_in_other_interpreter(prop, case):
    """Replays a case that carries interpreter_flags in such an interpreter."""
    import subprocess

    flags = case["interpreter_flags"]
    inner = {k: v for k, v in case.items() if k != "interpreter_flags"}
    code = "import sys, json; sys.path.insert(0, %r); from mc import core; import importlib; core.ensure_pkg_on_path(); m = importlib.import_module(sys.argv[1]); m.setup(); vs = m.replay(json.loads(sys.argv[2])); print('@@N@@%%d' %% len(vs))" % VERIF
    env = dict(os.environ, VERIF_REPO=REPO, PYTHONHASHSEED="0", PYTHONDONTWRITEBYTECODE="1")
    env.pop("PYTHONOPTIMIZE", None)
    p = subprocess.run(["/venv/bin/python"] + list(flags) + ["-c", code, prop.__name__, json.dumps(inner)], capture_output=True, text=True, env=env, timeout=600)
    n = [ln for ln in p.stdout.splitlines() if ln.startswith("@@N@@")]
    if not n:
        return [dict(key="interpreter", msg="replay child failed: %s" % p.stderr[-300:], case=case)]
    return [dict(key="".join(flags), msg="still fails under %s" % " ".join(flags), case=case)] if int(n[-1][5:]) else []


# --------------------------------------------------------------------------------------------
# known findings


def load_known_findings():
    """Lines `finding: property=<id> key=<key> <what fails>`; `fixed:` lines suppress nothing."""
    path = os.path.join(VERIF, "KNOWN_FINDINGS.txt")
    out = collections.defaultdict(dict)
    if not os.path.exists(path):
        return out
    with open(path, encoding="utf-8") as f:
        for line in f:
            line = line.strip()
            if not line.startswith("finding:"):
                continue
            parts = line[len("finding:") :].split()
            pid = key = None
            rest = []
            for p in parts:
                if p.startswith("property=") and pid is None:
                    pid = p[len("property=") :]
                elif p.startswith("key=") and key is None:
                    key = p[len("key=") :]
                else:
                    rest.append(p)
            if pid and key:
                out[pid][key] = " ".join(rest)
    return out


# --------------------------------------------------------------------------------------------
# evidence / replay artefacts


def validate_evidence(ev):
    """Hand-written mirror of /root/.vp/EVIDENCE.schema.json (jsonschema is not in /venv)."""
    for k in ("property_id", "tier", "seed", "level", "coverage", "wall_s"):
        if k not in ev:
            raise HarnessFault("evidence lacks %s" % k)
    if ev["tier"] not in ("quick", "thorough") or ev["level"] not in LEVELS:
        raise HarnessFault("evidence tier/level invalid")
    if not isinstance(ev["seed"], int) or not isinstance(ev["wall_s"], (int, float)):
        raise HarnessFault("evidence seed/wall_s invalid")
    c = ev["coverage"]
    if not isinstance(c.get("samples"), list) or not c["samples"]:
        raise HarnessFault("evidence has no samples")
    if not isinstance(c.get("rule"), str):
        raise HarnessFault("evidence has no rule")
    for k in ("evaluations", "distinct_nontrivial", "states", "transitions", "traces_validated_against_impl"):
        if not isinstance(c.get(k), int) or c[k] < 0:
            raise HarnessFault("evidence count %s invalid" % k)
    if c["evaluations"] < 1 or c["distinct_nontrivial"] < 2 or c["states"] < 1 or c["transitions"] < 1:
        raise HarnessFault(
            "vacuous exploration: evaluations=%d distinct=%d states=%d transitions=%d"
            % (c["evaluations"], c["distinct_nontrivial"], c["states"], c["transitions"])
        )
    json.dumps(ev)


def write_evidence(ev):
    validate_evidence(ev)
    d = EVIDENCE_DIR
    os.makedirs(d, exist_ok=True)
    path = os.path.join(d, ev["property_id"] + ".json")
    tmp = path + ".tmp%d" % os.getpid()
    with open(tmp, "w", encoding="utf-8") as f:
        json.dump(ev, f, indent=1, ensure_ascii=False, sort_keys=True)
        f.write("\n")
    os.replace(tmp, path)
    return path


REPLAY_PRELUDE = '''#!/usr/bin/env python3
"""Stand-alone replay of one violation of property {pid} ({key}).
Needs only the package under test:  python {name} [path-to-repo]   (default {repo})
Exit 0: the property holds on this case; exit 1: it is violated."""
import sys, io, os
sys.path.insert(0, sys.argv[1] if len(sys.argv) > 1 else {repo!r})
import logging
logging.getLogger().handlers[:] = [logging.NullHandler()]
'''


def write_replay(pid, v):
    d = REPLAY_DIR
    os.makedirs(d, exist_ok=True)
    blob = json.dumps(dict(property=pid, key=v["key"], case=v["case"]), sort_keys=True, ensure_ascii=False)
    h = hashlib.sha1(blob.encode("utf-8")).hexdigest()[:12]
    path = os.path.join(d, "%s-%s.json" % (pid, h))
    with open(path, "w", encoding="utf-8") as f:
        json.dump(
            dict(
                property=pid,
                key=v["key"],
                msg=v["msg"],
                case=v["case"],
                expected=v["expected"],
                observed=v["observed"],
                repo=REPO,
            ),
            f,
            indent=1,
            ensure_ascii=False,
        )
        f.write("\n")
    if v.get("script"):
        spath = path[:-5] + "_replay.py"
        with open(spath, "w", encoding="utf-8") as f:
            f.write(REPLAY_PRELUDE.format(pid=pid, key=v["key"], name=os.path.basename(spath), repo=REPO))
            f.write(v["script"])
            if not v["script"].endswith("\n"):
                f.write("\n")
    return path


# --------------------------------------------------------------------------------------------
# main


def main(prop, argv=None):
    """`prop` is a property module (see mc/props/*)."""
    ap = argparse.ArgumentParser(prog="check " + prop.ID)
    ap.add_argument("--tier", default=os.environ.get("VERIF_TIER", "quick"), choices=("quick", "thorough"))
    ap.add_argument("--seed", type=int, default=int(os.environ.get("VERIF_SEED", "0") or 0))
    ap.add_argument("--replay")
    ap.add_argument("--budget", type=float, default=None, help="time cap in seconds (reported if hit)")
    args = ap.parse_args(argv)
    t0 = time.time()
    try:
        return _main(prop, args, t0)
    except HarnessFault as e:
        print("HARNESS-FAULT property=%s %s" % (prop.ID, e), file=sys.stderr)
        return 2
    except Exception:
        traceback.print_exc()
        print("HARNESS-FAULT property=%s unexpected exception in harness" % prop.ID, file=sys.stderr)
        return 2


def _with_env_bounds(b):
    from . import envs

    if envs.STRIDE:
        b = dict(b, environment_slice="E1-M: every %d-th executed probe case of each shard, in enumeration order, repeated under each of %d environments %r and compared with its plain parse" % (envs.STRIDE, len(envs.NAMES), list(envs.NAMES)))
    return b


def _import_failure(prop, args, t0, exc_text):
    v = dict(
        key="package-import",
        case=dict(kind="import", module="chartparse.chart"),
        msg="the package cannot be imported, so every case of the enumeration fails: " + exc_text.strip().splitlines()[-1],
        expected="import succeeds",
        observed=exc_text[-2000:],
        script="import chartparse.chart\n",
    )
    path = write_replay(prop.ID, v)
    ev = dict(
        property_id=prop.ID,
        tier=args.tier,
        seed=args.seed,
        level=prop.LEVEL,
        coverage=dict(
            evaluations=1,
            distinct_nontrivial=0,
            rule="package import failed; nothing else could be explored",
            samples=["import chartparse.chart"],
            exhaustive=False,
        ),
        assumptions=[],
        wall_s=round(time.time() - t0, 3),
        violations=1,
    )
    d = EVIDENCE_DIR
    os.makedirs(d, exist_ok=True)
    with open(os.path.join(d, prop.ID + ".json"), "w") as f:
        json.dump(ev, f, indent=1)
    print("VIOLATION property=%s replay=%s" % (prop.ID, path))
    return 1


def _main(prop, args, t0):
    os.environ.setdefault("PYTHONHASHSEED", "0")
    ensure_pkg_on_path()
    if args.replay:
        with open(args.replay, encoding="utf-8") as f:
            art = json.load(f)
        try:
            prop.setup()
        except ImportError:
            print("VIOLATION property=%s replay=%s" % (prop.ID, args.replay))
            return 1
        if isinstance(art["case"], dict) and "env" in art["case"] and art["case"].get("probe_src"):
            from . import envs

            vs = envs.replay_case(art["case"])  # E1-M case: self-contained (probe source, entry mode, earlier parse)
        elif isinstance(art["case"], dict) and art["case"].get("interpreter_flags"):
            vs = replay_in_other_interpreter(prop, art["case"])
        elif isinstance(art["case"], dict) and "environment" in art["case"]:
            from . import e1

            vs = e1.replay_model_case(art["case"], "environment:" + art["case"]["environment"])  # E1-M, model-equality form
        else:
            vs = prop.replay(art["case"])
        if vs:
            for v in vs[:3]:
                print("replay: %s: %s" % (v["key"], v["msg"]))
            print("VIOLATION property=%s replay=%s" % (prop.ID, args.replay))
            return 1
        print("replay: property %s holds on this case" % prop.ID)
        return 0

    try:
        prop.setup()
    except ImportError:
        return _import_failure(prop, args, t0, traceback.format_exc())

    plan = prop.plan(args.tier, args.seed)  # dict(shards=[...], bounds={...}, budget_s=float)
    budget = args.budget if args.budget is not None else plan.get("budget_s", 600.0)
    m = run_shards(prop, plan["shards"], budget)
    post = getattr(prop, "post", None)
    if post is not None:
        post(m, args.tier, args.seed)

    known = load_known_findings().get(prop.ID, {})
    new, seen_known = [], {}
    for v in m["violations"]:
        if v["key"] in known:
            seen_known.setdefault(v["key"], v)
        else:
            new.append(v)
    for k, v in seen_known.items():
        print("KNOWN-FINDING: property=%s %s (%s)" % (prop.ID, known[k] or k, v["msg"]))

    capped = bool(m["capped_shards"])
    cov = dict(
        evaluations=int(m["evaluations"]),
        distinct_nontrivial=int(m["nontrivial"]),
        rule=prop.RULE,
        samples=m["samples"] or ["<no sample recorded>"],
        states=int(m["nodes"]),
        transitions=int(m["edges"]),
        traces_validated_against_impl=int(m["executions"]),
        exhaustive=(not capped) and bool(plan.get("exhaustive", True)),
        bounds=_with_env_bounds(plan.get("bounds", {})),
        outcomes={k: v for k, v in sorted(m["hist"].items())},
        shards=m["shards"],
        engine=getattr(prop, "ENGINE", ""),
    )
    if capped:
        cov["caps_hit"] = dict(
            time_budget_s=budget,
            shards_cut=m["capped_shards"],
            note="shards are enumerated simplest-first; each cut shard completed a prefix of its order",
        )
    cov.update(m["extra"])
    ev = dict(
        property_id=prop.ID,
        tier=args.tier,
        seed=args.seed,
        level=prop.LEVEL,
        coverage=cov,
        assumptions=list(prop.ASSUMPTIONS),
        wall_s=round(time.time() - t0, 3),
        violations=int(m["hist"].get("violations", 0)),
    )
    if m["hist"].get("violations", 0) and not m["samples"]:
        cov["samples"] = [m["violations"][0]["case"]]
    rc = 0
    if new:
        paths = [write_replay(prop.ID, v) for v in new[:3]]
        ev["coverage"]["first_violation"] = dict(key=new[0]["key"], msg=new[0]["msg"], replay=paths[0])
        try:
            write_evidence(ev)
        except HarnessFault:
            # a violation is never hidden behind a vacuity fault
            cov.setdefault("states", 1)
            os.makedirs(EVIDENCE_DIR, exist_ok=True)
            with open(os.path.join(EVIDENCE_DIR, prop.ID + ".json"), "w") as f:
                json.dump(ev, f, indent=1)
        for v in new[:3]:
            print("violation: %s: %s" % (v["key"], v["msg"]))
        print("VIOLATION property=%s replay=%s" % (prop.ID, paths[0]))
        rc = 1
    else:
        write_evidence(ev)
    print(
        "%s %s seed=%d: states=%d transitions=%d executions=%d evaluations=%d distinct_nontrivial=%d "
        "violations=%d exhaustive=%s wall=%.1fs"
        % (
            prop.ID,
            args.tier,
            args.seed,
            cov["states"],
            cov["transitions"],
            cov["traces_validated_against_impl"],
            cov["evaluations"],
            cov["distinct_nontrivial"],
            ev["violations"],
            cov["exhaustive"],
            ev["wall_s"],
        )
    )
    return rc
