"""Child of the C20 explorer: executed in a FRESH interpreter.

argv: <repo> <op> [<op> ...]   -> one JSON object on stdout. An op is a dotted module name (the client writes
`import chartparse.x`) or "from:chartparse.x" (the client writes `from chartparse import x`); after either form the
name the client holds must be THE module object chartparse.x (also sys.modules[...] and the package attribute).
  results: [[module, "ok" | "ExceptionClass: message"], ...]      (imports executed in this order)
  loaded:  sorted chartparse* entries of sys.modules
  fingerprint: sha1 over the canonical namespace table
  table: {module: {public name: [type, defining module, qualname]}}, aliases: groups of names bound to one object
"""
import hashlib
import importlib
import json
import sys

repo, mods = sys.argv[1], sys.argv[2:]
sys.path.insert(0, repo)
import os

if os.environ.get("VERIF_DECOY_PATH"):
    # a LATER sys.path entry that also has something called chartparse (an older installed release, a stub): the
    # tree at sys.path[0] is the one a client gets
    sys.path.append(os.environ["VERIF_DECOY_PATH"])
results = []
for m in mods:
    try:
        if m.startswith("star:"):
            exec("from %s import *" % m[5:], {})
            results.append([m, "ok"])
            continue
        name = m[5:] if m.startswith("from:") else m
        if m.startswith("from:") and "." in name:
            pkg, _, leaf = name.rpartition(".")
            ns = {}
            exec("from %s import %s as bound" % (pkg, leaf), ns)
            bound = ns["bound"]
        else:
            bound = importlib.import_module(name)
            pkg, _, leaf = name.rpartition(".")
        real = sys.modules.get(name)
        origin = getattr(real, "__file__", None) or ""
        if os.environ.get("VERIF_DECOY_PATH") and origin.startswith(os.environ["VERIF_DECOY_PATH"]):
            results.append([m, "WrongOrigin: %s was loaded from %s, a later sys.path entry, not from the tree at sys.path[0]" % (name, origin)])
        elif bound is not real or getattr(bound, "__name__", None) != name:
            results.append([m, "WrongObject: the client's name is bound to %r, not to the module %s" % (getattr(bound, "__name__", bound), name)])
        elif pkg and getattr(sys.modules.get(pkg), leaf, None) is not real:
            results.append([m, "WrongObject: attribute %s of package %s is %r, not the module %s" % (leaf, pkg, getattr(getattr(sys.modules.get(pkg), leaf, None), "__name__", None), name)])
        else:
            results.append([m, "ok"])
    except BaseException as e:  # noqa: BLE001
        results.append([m, "%s: %s" % (type(e).__name__, str(e)[:300])])

# the third client spelling: `from chartparse.x import *` must work for every module that is loaded by now
star_failures = []
for mn in sorted(k for k, v in sys.modules.items() if k.startswith("chartparse.") and v is not None):
    try:
        exec("from %s import *" % mn, {})
    except BaseException as e:  # noqa: BLE001
        star_failures.append([mn, "%s: %s" % (type(e).__name__, str(e)[:300])])

IMMUTABLE = (int, str, float, bool, type(None), tuple, frozenset, bytes, complex)
loaded = sorted(k for k, v in sys.modules.items() if (k == "chartparse" or k.startswith("chartparse.")) and v is not None)
def plain(v, depth=0):
    """repr of a value made of plain data only (numbers, strings, None, and lists / tuples / dicts / sets of such),
    else None: the part of a class's state that can be compared across interpreters"""
    if isinstance(v, (int, str, float, bool, type(None), bytes)):
        return repr(v)
    if depth > 4:
        return None
    if isinstance(v, (list, tuple)):
        parts = [plain(x, depth + 1) for x in v]
        return None if any(p_ is None for p_ in parts) else "%s[%s]" % (type(v).__name__, ", ".join(parts))
    if isinstance(v, (set, frozenset)):
        parts = [plain(x, depth + 1) for x in v]
        return None if any(p_ is None for p_ in parts) else "%s{%s}" % (type(v).__name__, ", ".join(sorted(parts)))
    if isinstance(v, dict):
        parts = [(plain(k, depth + 1), plain(x, depth + 1)) for k, x in v.items()]
        return None if any(a is None or b is None for a, b in parts) else "dict{%s}" % ", ".join("%s: %s" % ab for ab in parts)
    return None


table, by_id = {}, {}
for mn in loaded:
    mod = sys.modules[mn]
    ns = {}
    for name, obj in sorted(vars(mod).items()):
        if name.startswith("_"):
            continue
        ns[name] = [type(obj).__name__, getattr(obj, "__module__", None) if not isinstance(obj, IMMUTABLE) else None, getattr(obj, "__qualname__", getattr(obj, "__name__", None)) if not isinstance(obj, IMMUTABLE) else repr(obj)[:80]]
        if isinstance(obj, type) and str(getattr(obj, "__module__", "")).startswith("chartparse"):
            # plain-data class attributes, private ones included (not dunders): part of "the same object"
            attrs = {}
            for an, av in sorted(vars(obj).items()):
                if not (an.startswith("__") and an.endswith("__")):
                    pv = plain(av)
                    if pv is not None:
                        attrs[an] = pv[:400]
            ns[name].append(attrs)
        elif not isinstance(obj, IMMUTABLE) and not isinstance(obj, type(sys)) and not callable(obj) and hasattr(obj, "__dict__"):
            # a public name bound to an INSTANCE (a logger, a table object): its public plain-data state is part of
            # "the same object" - e.g. a module's logger is enabled and at the same level whatever was imported first
            attrs = {}
            for an, av in sorted(vars(obj).items()):
                if not an.startswith("_"):
                    pv = plain(av)
                    if pv is not None:
                        attrs[an] = pv[:400]
            ns[name].append(attrs)
        if not isinstance(obj, IMMUTABLE):
            by_id.setdefault(id(obj), []).append(mn + ":" + name)
    table[mn] = ns
aliases = sorted(sorted(g) for g in by_id.values() if len(g) > 1)
blob = json.dumps([loaded, table, aliases], sort_keys=True)
print(json.dumps(dict(star_failures=star_failures, results=results, loaded=loaded, fingerprint=hashlib.sha1(blob.encode()).hexdigest()[:16], table=table, aliases=aliases)))
