"""Sandwich check  L_must(K) <= claimed-as-K <= L_may(K)  for the line kinds of one section (E3).

The implementation side is the list of captured recognisers in captured trial order with
first-match semantics (what the dispatcher does); the specification side is a pair of regexes per
kind. One joint product automaton decides, for strings of any length over SIGMA, that
  * every string of L_must(K) is first-claimed by K's recogniser, and
  * every string first-claimed by K's recogniser lies in L_may(K).
Model verdicts are candidates only: the property module replays each on the real entry points.
"""

from __future__ import annotations

from . import automata as A
from . import core, impl

BL = r"[ \t]"


class Analysis:
    pass


def kind_classes(sec):
    """Public event classes of a section, for datum-level replay."""
    P = impl.P
    return dict(
        track=[("N", P.NoteEvent), ("S", P.StarPowerEvent), ("E", P.TrackEvent)],
        sync=[("B", P.BPMEvent), ("TS", P.TimeSignatureEvent), ("A", P.AnchorEvent)],
        events=[("lyric", P.LyricEvent), ("section", P.SectionEvent), ("text", P.TextEvent)],
    )[sec]


def analyse(sec, kinds, spec=None):
    """kinds: {K: dict(canon=<line only K's recogniser accepts>, must=..., may=...)} where must/may
    are regexes, or - when `spec` ({name: regex}) is given - predicates over {name: accepted}.
    -> Analysis with .pats (captured, ordered), .kind_of (per captured pattern), .graph,
    .candidates [(what, K, witness)], .witnesses."""
    a = Analysis()
    a.sec, a.kinds = sec, kinds
    a.pats = A.capture_section(sec)
    if not a.pats:
        raise A.Unsupported("no recogniser captured for section %s" % sec)
    a.kind_of = []
    claimed = set()
    for p in a.pats:
        # the first pattern in trial order matching K's canonical line is K's recogniser
        k = next((K for K, d in kinds.items() if K not in claimed and A.applies(p, d["canon"])), None)
        a.kind_of.append(k)
        if k is not None:
            claimed.add(k)
    a.missing = [K for K in kinds if K not in claimed]
    impl_nfas = [A.from_compiled(p) for p in a.pats]
    K = list(kinds)
    if spec is None:
        spec = {}
        preds = {}
        for k in K:
            spec["must_" + k], spec["may_" + k] = kinds[k]["must"], kinds[k]["may"]
            preds[k] = ((lambda v, k=k: v["must_" + k]), (lambda v, k=k: v["may_" + k]))
    else:
        preds = {k: (kinds[k]["must"], kinds[k]["may"]) for k in K}
    names = list(spec)
    spec_nfas = [A.compile_re(spec[nm]) for nm in names]
    n = len(impl_nfas)
    a.graph = g = A.explore(impl_nfas + spec_nfas)

    def vec(acc):
        return {nm: acc[n + i] for i, nm in enumerate(names)}

    a.candidates = []
    seen = set()
    for i, acc in enumerate(g.acc):
        first = next((j for j in range(n) if acc[j]), None)
        fk = a.kind_of[first] if first is not None else None
        v = vec(acc)
        for k in K:
            if preds[k][0](v) and fk != k:
                c = ("must-not-claimed", k, g.wit[i])
                if c[:2] not in seen:
                    seen.add(c[:2])
                    a.candidates.append(c)
            if fk == k and not preds[k][1](v):
                c = ("claimed-outside-may", k, g.wit[i])
                if c[:2] not in seen:
                    seen.add(c[:2])
                    a.candidates.append(c)
    # targets for witness completion: into each L_must, and into "outside every L_may"
    targets = [(lambda acc, k=k: preds[k][0](vec(acc))) for k in K]
    targets.append(lambda acc: not any(preds[k][1](vec(acc)) for k in K))
    a.witnesses = A.witnesses(g, targets)
    a.n_impl, a.K = n, K
    a.impl_nfas = impl_nfas
    a.spec_names, a.spec_nfas, a.preds = names, spec_nfas, preds
    return a


def spec_class(a, s):
    """(kinds whose L_must contains s, kinds whose L_may contains s)."""
    v = {nm: A.accepts(nfa, s) for nm, nfa in zip(a.spec_names, a.spec_nfas)}
    return [k for k in a.K if a.preds[k][0](v)], [k for k in a.K if a.preds[k][1](v)]


def conformance(a, L):
    """Level (a) binding: NFA vs captured pattern object on witnesses and all short strings."""
    total = 0
    for p, nfa in zip(a.pats, a.impl_nfas):
        dfa = A.DFA(nfa)
        total += A.conform_fast(p, dfa, a.witnesses)
        total += A.conform_fast(p, dfa, A.short_strings(a.graph.reps, L))
    return total


_API = None


def api_available():
    global _API
    if _API is None:
        _API = check_api()
    return _API


def claimant(sec, line, order=None):
    """Mirror of the dispatcher on the public line parsers: (kind, datum | ('raises', cls) | None).
    Without the documented line-parser classmethods: ("<no-api>", None) - callers then rely on the
    end-to-end replay alone."""
    P = impl.P
    if not api_available():
        return "<no-api>", None
    for kind, cls in order or kind_classes(sec):
        try:
            d = cls.ParsedData.from_chart_line(line)
        except P.RegexNotMatchError:
            continue
        except Exception as e:  # noqa: BLE001
            return kind, ("raises", type(e).__name__)
        return kind, d
    return None, None


def dispatch_order(a):
    """Public classes in CAPTURED trial order (classes attributed through canonical lines)."""
    by_kind = dict(kind_classes(a.sec))
    order = [(k, by_kind[k]) for k in a.kind_of if k in by_kind]
    for k, cls in kind_classes(a.sec):
        if all(k != x for x, _ in order):
            order.append((k, cls))
    return order


def check_api():
    """True when the documented line-parser classmethods exist (else: end-to-end replay only)."""
    try:
        for sec in ("track", "sync", "events"):
            for _, cls in kind_classes(sec):
                cls.ParsedData.from_chart_line
    except AttributeError:
        return False
    return True


def fault(msg):
    raise core.HarnessFault(msg)
